// Package fixtures holds the committed keys and certificates used by the
// worlds (generated once by tools/genfixtures). Nothing here is created at
// run time, so a run is a pure function of the rapid bit stream.
package fixtures

import (
	"crypto/ecdsa"
	"crypto/ed25519"
	"crypto/sha256"
	"crypto/x509"
	"embed"
	"encoding/pem"
	"fmt"
)

//go:embed *.pem
var files embed.FS

// Leaf is one end-entity certificate with its private key.
type Leaf struct {
	Name   string
	DER    []byte
	Key    *ecdsa.PrivateKey
	Hosts  []string
	PEM    []byte // certificate PEM
	KeyPEM []byte
	CADER  []byte // the issuing CA's certificate (EC P-256, RSA-2048 or Ed25519 key)
}

// Issuer parses a fresh copy of the issuing CA's certificate.
func (l *Leaf) Issuer() *x509.Certificate {
	c, err := x509.ParseCertificate(l.CADER)
	if err != nil {
		panic(err)
	}
	return c
}

// Cert parses a fresh *x509.Certificate (never shared between runs/tasks
// unless a world decides to share it).
func (l *Leaf) Cert() *x509.Certificate {
	c, err := x509.ParseCertificate(l.DER)
	if err != nil {
		panic(err)
	}
	return c
}

// Fresh returns a copy of l whose certificates (leaf and issuer) are content-fresh:
// the last bytes of each certificate's signatureValue are replaced by salt. Nothing
// in the repository validates a certificate's own signature, and
// x509.ParseCertificate does not look inside signatureValue, so the copy is as
// usable as the original - but no content-keyed cache can have met it before.
func Fresh(l *Leaf, salt []byte) *Leaf {
	f := *l
	fresh := func(der []byte) []byte {
		d := append([]byte(nil), der...)
		copy(d[len(d)-len(salt):], salt)
		if _, err := x509.ParseCertificate(d); err != nil {
			return append([]byte(nil), der...) // (cannot happen for the fixtures; stay usable)
		}
		return d
	}
	f.DER = fresh(l.DER)
	f.CADER = fresh(l.CADER)
	f.PEM = pem.EncodeToMemory(&pem.Block{Type: "CERTIFICATE", Bytes: f.DER})
	return &f
}

// Sha256 of the DER.
func (l *Leaf) Sha256() []byte { s := sha256.Sum256(l.DER); return s[:] }

var (
	Leaves []*Leaf
	CADER  []byte
	// OddCerts: self-signed certificates whose public keys are of kinds the formats
	// do not use (ECDSA P-521 and P-224, RSA-2048, Ed25519); certificates only.
	OddCerts []*Leaf
)

func CA() *x509.Certificate {
	c, err := x509.ParseCertificate(CADER)
	if err != nil {
		panic(err)
	}
	return c
}

func mustPEM(name string) ([]byte, []byte) {
	b, err := files.ReadFile(name)
	if err != nil {
		panic(err)
	}
	blk, _ := pem.Decode(b)
	if blk == nil {
		panic("bad pem " + name)
	}
	return blk.Bytes, b
}

func init() {
	CADER, _ = mustPEM("ca.cert.pem")
	for _, n := range []string{"odd-p521", "odd-p224", "odd-rsa", "odd-ed25519"} {
		der, cpem := mustPEM(n + ".cert.pem")
		OddCerts = append(OddCerts, &Leaf{Name: n, DER: der, PEM: cpem, CADER: CADER, Hosts: []string{"example.com", "fifth.example"}})
	}
	cas := map[string]string{"e-p256": "ca-rsa.cert.pem", "f-p384": "ca-ed25519.cert.pem"}
	for _, n := range []string{"a-p256", "a2-p256", "b-p384", "c-p256", "d-p384", "e-p256", "f-p384", "g-p256"} {
		der, cpem := mustPEM(n + ".cert.pem")
		kder, kpem := mustPEM(n + ".key.pem")
		k, err := x509.ParseECPrivateKey(kder)
		if err != nil {
			panic(err)
		}
		c, err := x509.ParseCertificate(der)
		if err != nil {
			panic(err)
		}
		ca := CADER
		if f, ok := cas[n]; ok {
			ca, _ = mustPEM(f)
		}
		if n == "g-p256" {
			ca = der // self-signed; carries the embedded-SCT-list extension
		}
		Leaves = append(Leaves, &Leaf{Name: n, DER: der, Key: k, Hosts: c.DNSNames, PEM: cpem, KeyPEM: kpem, CADER: ca})
	}
}

// ByName returns a leaf.
func ByName(n string) *Leaf {
	for _, l := range Leaves {
		if l.Name == n {
			return l
		}
	}
	panic("no leaf " + n)
}

// ConstReader is an entropy source that returns the same byte forever. Go's
// ecdsa.Sign perturbs its reader by sometimes consuming one byte first
// (randutil.MaybeReadByte); a constant stream is invariant under that, so the
// repository's real ECDSA signing path becomes a deterministic function of
// (key, message, B): the nonce is derived by ecdsa's own CSPRNG mixing of key,
// digest and these "entropy" bytes.
type ConstReader struct{ B byte }

func (r ConstReader) Read(p []byte) (int, error) {
	for i := range p {
		p[i] = r.B
	}
	return len(p), nil
}

// Ed25519Key derives a key pair from a one-byte seed index.
func Ed25519Key(i int) (ed25519.PublicKey, ed25519.PrivateKey) {
	seed := sha256.Sum256([]byte(fmt.Sprintf("verif-sim-ed25519-seed-%d", i)))
	priv := ed25519.NewKeyFromSeed(seed[:])
	return priv.Public().(ed25519.PublicKey), priv
}
