package gen

import (
	"bytes"
	"crypto/x509"
	"fmt"
	"net/http"
	"net/url"
	"strings"
	"time"

	"github.com/WICG/webpackage/go/signedexchange"
	"github.com/WICG/webpackage/go/signedexchange/certurl"
	"github.com/WICG/webpackage/go/signedexchange/version"
	"github.com/WICG/webpackage/go/verifhook"
	"verifsim/core"
	"verifsim/fixtures"
	"verifsim/ref/refmice"
)

// LSXG is the logical signed exchange a simulated publisher produces.
type LSXG struct {
	Version     string
	Leaf        *fixtures.Leaf
	URL         string
	Method      string
	ReqHeaders  []HV
	Status      int
	RespHeaders []HV
	Payload     []byte
	RS          int
	Date        int64
	Expires     int64
	ValidityURL string
	CertURL     string
	Entropy     byte
	DirectMap   bool
	// Collide: the caller's header map holds keys that differ only in letter case
	// (set directly on the map, with different values).
	Collide int
	// ForeignMI: the publisher protects the payload with the OTHER format version's
	// integrity scheme, consistently (encoding, digest header, Content-Encoding).
	ForeignMI bool
	DateNs, ExpiresNs int64 // sub-second parts of the Signer's Date and Expires
	// OldPayload: content whose MI digest (record size 16) the response states in X-Previous-Digest
	OldPayload []byte
	// EmptyValued: response header names present in the caller's map with no value
	// at all (nil slice for even positions, empty slice for odd ones).
	EmptyValued []string
	// SignerObj, when set, is the Signer object to use (a publisher reusing one
	// Signer for several exchanges); otherwise a fresh one is built per call.
	SignerObj *signedexchange.Signer

	// produced by Sign
	SignedReq  map[string]string // canonical request headers that were signed
	SignedResp map[string]string // canonical response headers that were signed (incl. MI headers)
	SigHeader  string
	EncPayload []byte
	File       []byte
}

var rsChoices = []int{1, 2, 3, 7, 16, 64, 100, 4096, 16384}

// DrawSXG draws a policy-conforming exchange for the given host set.
func DrawSXG(c *core.Ctx, label string, uniq int) *LSXG {
	l := &LSXG{}
	l.Version = c.PickStr(label+".version", "1b1", "1b2", "1b3")
	l.Leaf = fixtures.Leaves[c.Pick(label+".leaf", len(fixtures.Leaves))]
	host := l.Leaf.Hosts[0]
	if host[0] == '*' {
		host = "sub" + host[1:]
	}
	port := c.PickStr(label+".port", "", "", ":8443")
	l.URL = fmt.Sprintf("https://%s%s/%s/doc%d%s", host, port, segs[c.Pick(label+".seg", 6)], uniq, c.PickStr(label+".q", "", "?v=1"))
	if c.Chance(label+".rawURL", 1, 6) {
		// forms that net/url would re-serialize differently: the library must carry the
		// caller's string unchanged through signing, writing and reading
		switch c.Pick(label+".rawURLkind", 8) {
		case 6, 7:
			// no path at all (the authority is the whole URL), with or without a query
			l.URL = fmt.Sprintf("https://%s%s%s", host, port, c.PickStr(label+".emptyPathQ", "", "", "?v=1"))
			c.Probe("request URL with an empty path")
		case 0:
			l.URL = "HTTPS" + l.URL[5:]
		case 1:
			l.URL += "#"
		case 2:
			l.URL = strings.Replace(l.URL, "/doc", "/a b|c^d/doc", 1)
		case 3:
			l.URL = strings.Replace(l.URL, "/doc", "/\u00e9\u3042/doc", 1)
		case 4:
			l.URL += "#frag ment"
		default:
			l.URL = strings.Replace(l.URL, "/doc", "/%7euser/%2F/doc", 1)
		}
		c.Probe("URL whose net/url re-serialization differs")
	}
	l.Method = "GET"
	if l.Version == "1b3" && c.Chance(label+".b3method", 1, 6) {
		// 1b3 has no request method on the wire; whatever the caller's object holds is not
		// part of the exchange
		l.Method = c.PickStr(label+".b3methodValue", "", "POST", "get", "HEAD")
		c.Probe("1b3 exchange object holding another method")
	}
	if l.Version != "1b3" {
		l.Method = c.PickStr(label+".method", "GET", "GET", "HEAD")
		if c.Bool(label + ".reqhdr") {
			l.ReqHeaders = append(l.ReqHeaders, HV{c.PickStr(label+".reqname", "Accept", "accept-language", "X-Req"), visible(c, label+".reqval", 1, 12)})
		}
	}
	l.Status = c.PickInt(label+".status", 200, 200, 203, 204, 206, 300, 301, 404, 405, 410, 414, 501)
	l.RespHeaders = []HV{{c.PickStr(label+".ctname", "Content-Type", "content-type", "CONTENT-TYPE"), c.PickStr(label+".ct", "text/html", "application/octet-stream; charset=x")}}
	n := c.Int(label+".nhdr", 0, 3)
	perm := c.Perm(label+".hdrperm", len(harmless))
	for i := 0; i < n; i++ {
		l.RespHeaders = append(l.RespHeaders, HV{recase(c, label+".case", harmless[perm[i]]), visible(c, label+".hval", 1, 20)})
		if c.Chance(label+".multi", 1, 5) {
			l.RespHeaders = append(l.RespHeaders, HV{l.RespHeaders[len(l.RespHeaders)-1].Name, visible(c, label+".hval2", 1, 8)})
		}
	}
	if c.Chance(label+".manyHeaders", 1, 25) {
		// the signed header map around the 23/24-entry CBOR head-size step
		for i, m := 0, c.PickInt(label+".manyN", 18, 19, 20, 21, 22, 23); i < m; i++ {
			l.RespHeaders = append(l.RespHeaders, HV{fmt.Sprintf("X-M%02d", i), "m"})
		}
		c.Probe("signed header map with 23+ fields")
	}
	if c.Chance(label+".oldDigest", 1, 10) {
		// the publisher also states the digest of the PREVIOUS version of the resource, in a
		// header of its own (value shaped exactly like a Digest value)
		d := refmice.Draft03
		if l.Version == "1b1" {
			d = refmice.Draft02
		}
		l.OldPayload = append([]byte("previous version: "), visible(c, label+".old", 0, 40)...)
		dg, _ := refmice.Encode(d, l.OldPayload, 16)
		l.RespHeaders = append(l.RespHeaders, HV{"X-Previous-Digest", dg})
		c.Probe("response stating the digest of an older version in another header")
	}
	if c.Chance(label+".preEncoded", 1, 8) {
		// the response was already content-coded before integrity protection is stacked on top
		l.RespHeaders = append(l.RespHeaders, HV{"Content-Encoding", c.PickStr(label+".coding", "gzip", "br", "identity")})
		c.Probe("response that already has a Content-Encoding")
	}
	l.DirectMap = c.Bool(label + ".directMap")
	l.RS = rsChoices[c.Pick(label+".rs", len(rsChoices))]
	k := c.Int(label+".records", 0, 3)
	var plen int
	switch c.Pick(label+".lenClass", 5) {
	case 0:
		plen = k * l.RS
	case 1:
		plen = k*l.RS + 1
	case 2:
		plen = k*l.RS - 1
	case 3:
		plen = c.Int(label+".len", 0, 2)
	default:
		plen = c.Int(label+".len", 0, 300)
	}
	if plen < 0 {
		plen = 0
	}
	tag := fmt.Sprintf("<%06d>", uniq)
	l.Payload = make([]byte, plen)
	core.FillPattern(l.Payload, c.U64(label+".pat", 0, ^uint64(0)))
	if plen >= len(tag) {
		copy(l.Payload, tag)
	}
	// uniqueness also through a header (short payloads cannot carry the tag)
	l.RespHeaders = append(l.RespHeaders, HV{"X-Uniq", tag})
	l.Date = c.I64(label+".date", 1600000000, 1700000000)
	if c.Chance(label+".farDate", 1, 6) {
		// dates around the 31-, 32- and 40-bit boundaries (2038, 2106, year 36812)
		base := c.PickI64(label+".dateBase", 1<<31, 1<<32, 1<<40, 1<<24)
		l.Date = base + c.I64(label+".dateOff", -700000, 700000)
	}
	life := []int64{1, 30, 3600, 86400, 604799, 604800}
	l.Expires = l.Date + life[c.Pick(label+".life", len(life))]
	l.ValidityURL = fmt.Sprintf("https://%s%s/validity/%d", host, port, uniq)
	if c.Chance(label+".validityOddChars", 1, 8) {
		// characters that need quoting inside the Signature header's strings, also at the very end
		l.ValidityURL += c.PickStr(label+".validityTail", `?dir=C:\v\`, `?q="x"`, `?a=\`, `?b=\"`, `?c=x\\`)
		c.Probe("validity URL with quotes / backslashes")
	}
	if c.Chance(label+".acrossDST", 1, 10) {
		// a maximal lifetime spanning a daylight-saving transition of a zone the process may run in
		l.Date = core.DSTTransitions[c.Pick(label+".transition", len(core.DSTTransitions))] - c.I64(label+".beforeDST", 0, 604800)
		l.Expires = l.Date + c.PickI64(label+".lifeDST", 604800, 604799, 601300)
	}
	l.CertURL = "https://cert.example/" + l.Leaf.Name + ".cbor"
	l.Entropy = byte(c.Int(label+".entropy", 0, 255))
	if c.Chance(label+".subSecondTimes", 1, 5) {
		l.DateNs = c.PickI64(label+".dateNs", 900000000, 1, 500000000, 999999999)
		l.ExpiresNs = c.PickI64(label+".expiresNs", 100000000, 0, 500000000, 999999999)
	}
	return l
}

var harmless = []string{"Cache-Control-X", "X-Foo", "Link", "Vary", "ETag", "x-set-cookie-like", "cookie-", "Set-Cookie2x", "Content-Language", "x-connection",
	// ordinary end-to-end fields that share a first segment with a banned one
	"Proxy-Status", "Upgrade-Insecure-Requests", "Public-Key-Pins-Report-Only", "Keep-Alive-Hint"}

func recase(c *core.Ctx, label, name string) string {
	if !c.Bool(label) {
		return name
	}
	b := []byte(name)
	mask := c.U64(label+".mask", 0, ^uint64(0))
	for j := range b {
		if mask>>(uint(j)%64)&1 == 1 {
			if b[j] >= 'a' && b[j] <= 'z' {
				b[j] -= 32
			} else if b[j] >= 'A' && b[j] <= 'Z' {
				b[j] += 32
			}
		}
	}
	return string(b)
}

// lookedUp lists the fields the library itself looks up with Header.Get;
// http.Header's contract requires canonical keys for those, so only the other
// fields are ever inserted with non-canonical keys (a documented don't-care
// zone: a caller bypassing the http.Header API for these fields).
var lookedUp = map[string]bool{"content-type": true, "digest": true, "mi-draft2": true, "cache-control": true, "expires": true, "content-encoding": true, "variants": true, "variant-key": true}

func mkHeader(hs []HV, direct bool) http.Header {
	h := http.Header{}
	for _, hv := range hs {
		if direct && !lookedUp[strings.ToLower(hv.Name)] {
			h[hv.Name] = append(h[hv.Name], hv.Value)
		} else {
			h.Add(hv.Name, hv.Value)
		}
	}
	return h
}

// CanonHeader is the canonical form of an http.Header: lower-cased names,
// comma-joined values; ok=false if two keys fold to the same name.
func CanonHeader(h http.Header) (map[string]string, bool) {
	out := map[string]string{}
	ok := true
	for k, v := range h {
		lk := strings.ToLower(k)
		if _, dup := out[lk]; dup {
			ok = false
		}
		out[lk] = strings.Join(v, ",")
	}
	return out, ok
}

func (l *LSXG) Ver() version.Version { return version.Version(l.Version) }

// Signer builds a fresh repository Signer whose ECDSA nonce source is the
// constant-entropy reader (deterministic signatures through the real code).
func (l *LSXG) Signer() *signedexchange.Signer {
	alg, err := verifhook.SigningAlgorithmForPrivateKey(l.Leaf.Key, fixtures.ConstReader{B: l.Entropy})
	if err != nil {
		panic(err)
	}
	cu, _ := url.Parse(l.CertURL)
	vu, _ := url.Parse(l.ValidityURL)
	return &signedexchange.Signer{
		// (the publisher reads a real clock: its Date and Expires need not be whole seconds;
		// the signed parameters are the whole seconds they fall into)
		Date:        time.Unix(l.Date, l.DateNs),
		Expires:     time.Unix(l.Expires, l.ExpiresNs),
		Certs:       []*x509.Certificate{l.Leaf.Cert(), l.Leaf.Issuer()},
		CertUrl:     cu,
		ValidityUrl: vu,
		PrivKey:     l.Leaf.Key,
		Algorithm:   alg,
	}
}

// Unsigned builds a fresh repository Exchange (not yet MI-encoded or signed).
func (l *LSXG) Unsigned() *signedexchange.Exchange {
	var rq http.Header
	if l.Version != "1b3" {
		rq = mkHeader(l.ReqHeaders, l.DirectMap)
	}
	rs := mkHeader(l.RespHeaders, l.DirectMap)
	for i, k := range []string{"x-uniq", "X-UNIQ", "x-uniQ"}[:l.Collide] {
		rs[k] = []string{fmt.Sprintf("collide-%d", i)}
	}
	for i, k := range l.EmptyValued {
		if i%2 == 0 {
			rs[k] = nil
		} else {
			rs[k] = []string{}
		}
	}
	return signedexchange.NewExchange(l.Ver(), l.URL, l.Method, rq, l.Status, rs, append([]byte(nil), l.Payload...))
}

// Sign runs the publisher: MI-encode, sign, serialize. It records what was
// signed. The returned exchange is the publisher's in-memory object.
func (l *LSXG) Sign() (*signedexchange.Exchange, error) {
	e := l.Unsigned()
	if l.ForeignMI {
		d := refmice.Draft02
		if l.Version == "1b1" {
			d = refmice.Draft03
		}
		dg, stream := refmice.Encode(d, e.Payload, l.RS)
		e.Payload = stream
		e.ResponseHeaders.Add("Content-Encoding", d.Name())
		e.ResponseHeaders.Add(d.HeaderName(), dg)
	} else if err := e.MiEncodePayload(l.RS); err != nil {
		return nil, fmt.Errorf("MiEncodePayload: %v", err)
	}
	sg := l.SignerObj
	if sg == nil {
		sg = l.Signer()
	}
	if err := e.AddSignatureHeader(sg); err != nil {
		return nil, fmt.Errorf("AddSignatureHeader: %v", err)
	}
	l.SignedResp, _ = CanonHeader(e.ResponseHeaders)
	l.SignedReq, _ = CanonHeader(e.RequestHeaders)
	l.SigHeader = e.SignatureHeaderValue
	l.EncPayload = append([]byte(nil), e.Payload...)
	var buf bytes.Buffer
	if err := e.Write(&buf); err != nil {
		return e, fmt.Errorf("Write: %v", err)
	}
	l.File = buf.Bytes()
	return e, nil
}

// ChainBytes serializes the certificate chain served at CertURL.
func ChainBytes(leaf *fixtures.Leaf, ocsp []byte) []byte {
	chain, err := certurl.NewCertChain([]*x509.Certificate{leaf.Cert(), leaf.Issuer()}, ocsp, nil)
	if err != nil {
		panic(err)
	}
	var buf bytes.Buffer
	if err := chain.Write(&buf); err != nil {
		panic(err)
	}
	return buf.Bytes()
}

// ChainBytesOf serializes a chain of the given certificates (DER), OCSP on the first.
func ChainBytesOf(ders [][]byte, ocsp []byte) []byte {
	var certs []*x509.Certificate
	for _, d := range ders {
		c, err := x509.ParseCertificate(d)
		if err != nil {
			panic(err)
		}
		certs = append(certs, c)
	}
	chain, err := certurl.NewCertChain(certs, ocsp, nil)
	if err != nil {
		panic(err)
	}
	var buf bytes.Buffer
	if err := chain.Write(&buf); err != nil {
		panic(err)
	}
	return buf.Bytes()
}

// Describe for the event log.
func (l *LSXG) Describe() string {
	return fmt.Sprintf("sxg %s leaf=%s url=%s method=%s status=%d hdrs=%d payload=%d rs=%d date=%d life=%d", l.Version, l.Leaf.Name, l.URL, l.Method, l.Status, len(l.RespHeaders), len(l.Payload), l.RS, l.Date, l.Expires-l.Date)
}
