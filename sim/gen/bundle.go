// Package gen holds the workload generators shared by several worlds: logical
// models of bundles / exchanges and their conversion into the repository's
// types. A logical model is the oracle's ground truth; the repository objects
// are built fresh from it for every call so that nothing is shared by accident.
package gen

import (
	"fmt"
	"net/http"
	"net/url"
	"sort"
	"strings"

	"github.com/WICG/webpackage/go/bundle"
	"github.com/WICG/webpackage/go/bundle/version"
	"github.com/WICG/webpackage/go/signedexchange/certurl"
	"verifsim/core"
	"verifsim/fixtures"
)

// HV is one header line as the caller supplied it.
type HV struct{ Name, Value string }

type LResp struct {
	Status    int
	Headers   []HV // any letter case, names may repeat (multi-valued)
	Body      []byte
	DirectMap bool // build http.Header as a literal map (keys kept as given) instead of Header.Add
}

type LExchange struct {
	URL  string
	Resp LResp
}

type LSigs struct {
	Authorities []string // fixture leaf names
	SCTOnAll    bool     // the SCT list sits on every authority, not only on the first
	OCSP        []byte
	SCT         []byte
	Vouched     []bundle.VouchedSubset
}

type LBundle struct {
	Version   string
	Primary   string // "" = none
	Manifest  string
	Exchanges []LExchange
	Sigs      *LSigs
	// expectation for b1 variant sets
	ExpectWriteError bool
	MultiKey         bool             // some Variant-Key lists several keys (no byte fixpoint claimed)
	Order            map[string][]int // URL -> indices into Exchanges in expected read-back order
}

var headerNames = []string{"Content-Type", "content-length", "X-Foo", "x-BAR-1", "ETag", "cache-control", "Accept-Ranges", "LINK", "Vary", "x-a", "X-Long-Header-Name-For-Length-Class-Testing-0123456789", "Server-Timing",
	// every character a field name may contain besides letters, digits and "-" (RFC 7230 tchar)
	"X_Request_Id", "X-Cache^Status", "x.dotted.name", "x!#$%&'*+|~`tchars"}

var bodyLens = []int{0, 1, 13, 22, 23, 24, 25, 254, 255, 256, 257, 1000, 65534, 65535, 65536, 65537}

func visible(c *core.Ctx, label string, lo, hi int) string {
	n := c.Int(label+".len", lo, hi)
	b := make([]byte, n)
	core.FillPattern(b, c.U64(label+".pat", 0, ^uint64(0)))
	for i := range b {
		b[i] = 0x21 + b[i]%0x5e // visible ASCII
	}
	// interior ", " and "," as in real list-valued fields (Cache-Control, dates)
	if n >= 5 && c.Chance(label+".comma", 1, 3) {
		k := c.Int(label+".commaAt", 1, n-3)
		b[k] = ','
		if c.Bool(label + ".commaSpace") {
			b[k+1] = ' '
		}
	}
	return string(b)
}

var hosts = []string{"example.com", "www.example.com", "other.test", "third.example", "sub.wild.example", "fourth.example", "fifth.example", "sixth.example", "seventh.example", "uncovered.invalid"}
var segs = []string{"a", "index.html", "p%20q", "%E3%81%82", "~user", "a.b-c_d", "x;y", "q=1", "@at", "looooooooooooooooooooooooooooooooooooooooooooooooooooooooooooooooooooooooooooooooooooooooooooooooooooooooooooooooooooooooooooooooooooooooooooooooooooooooooooooooooooooooooooooooooooooooooooooooooooooooooooooooooooooooooooooooooooooooooooooooooooooooooooooooooooooong"}

// DrawURL draws a URL string whose Parse/String form is a fixpoint.
func DrawURL(c *core.Ctx, label string, uniq int, allowRelative bool, host string) string {
	for try := 0; ; try++ {
		var sb strings.Builder
		rel := allowRelative && c.Chance(label+".relative", 1, 6)
		if !rel {
			sb.WriteString(c.PickStr(label+".scheme", "https", "http"))
			sb.WriteString("://")
			if host == "" {
				sb.WriteString(hosts[c.Pick(label+".host", len(hosts))])
			} else {
				sb.WriteString(host)
			}
			sb.WriteString(c.PickStr(label+".port", "", "", ":8443", ":80"))
		}
		if !rel && c.Chance(label+".emptyPath", 1, 12) {
			// no path at all: the authority is the whole URL (made unique by a query)
			fmt.Fprintf(&sb, "?u=%d", uniq)
			s := sb.String()
			if u, err := url.Parse(s); err == nil && u.String() == s {
				c.Probe("URL with an empty path")
				return s
			}
		}
		sb.WriteString("/")
		n := c.Int(label+".nseg", 0, 3)
		for i := 0; i < n; i++ {
			sb.WriteString(segs[c.Pick(label+".seg", len(segs))])
			sb.WriteString("/")
		}
		fmt.Fprintf(&sb, "r%d", uniq)
		if c.Chance(label+".query", 1, 3) {
			sb.WriteString(c.PickStr(label+".q", "?x=1", "?x=1&y=%20z", "?", "?a/b?c"))
		}
		s := sb.String()
		u, err := url.Parse(s)
		if err != nil {
			continue
		}
		s1 := u.String()
		u2, err := url.Parse(s1)
		if err == nil && u2.String() == s1 {
			return s1
		}
		if try > 20 {
			return fmt.Sprintf("https://example.com/r%d", uniq)
		}
	}
}

func drawHeaders(c *core.Ctx, label string) []HV {
	n := c.Int(label+".n", 0, 5)
	perm := c.Perm(label+".names", len(headerNames))
	var hs []HV
	for i := 0; i < n; i++ {
		name := headerNames[perm[i]]
		// random letter case
		if c.Bool(label + ".recase") {
			b := []byte(name)
			mask := c.U64(label+".casemask", 0, ^uint64(0))
			for j := range b {
				if mask>>(uint(j)%64)&1 == 1 {
					if b[j] >= 'a' && b[j] <= 'z' {
						b[j] -= 32
					} else if b[j] >= 'A' && b[j] <= 'Z' {
						b[j] += 32
					}
				}
			}
			name = string(b)
		}
		nv := 1
		if c.Chance(label+".multi", 1, 4) {
			nv = c.Int(label+".nvals", 2, 3)
		}
		for k := 0; k < nv; k++ {
			hs = append(hs, HV{name, visible(c, label+".val", 0, 30)})
		}
	}
	if c.Chance(label+".many", 1, 120) {
		// header maps around the CBOR head-size steps (23/24, 255/256 entries)
		for i, m := 0, c.PickInt(label+".manyN", 20, 21, 22, 23, 24, 22, 23, 253); i < m; i++ {
			hs = append(hs, HV{fmt.Sprintf("X-M%03d", i), "m"})
		}
		c.Probe("header map with 23-257 fields")
	}
	return hs
}

func DrawResp(c *core.Ctx, label string, uniq int) LResp {
	var r LResp
	r.Status = c.PickInt(label+".status", 200, 200, 200, 100, 204, 301, 404, 418, 500, 599, 999)
	if c.Chance(label+".statusAny", 1, 4) {
		r.Status = c.Int(label+".statusN", 100, 999)
	}
	r.Headers = drawHeaders(c, label+".hdr")
	r.DirectMap = c.Bool(label + ".directMap")
	n := bodyLens[c.Pick(label+".bodyLen", len(bodyLens))]
	if n > 1000 && !c.Chance(label+".big", 1, 3) {
		n = c.Int(label+".bodyLen2", 0, 300)
	}
	// (bodies of a MiB and more: see bundle/TestScale)
	// every body is unique within a run: a 6-byte tag + pattern
	tag := fmt.Sprintf("#%05d", uniq)
	body := make([]byte, n)
	core.FillPattern(body, c.U64(label+".bodyPat", 0, ^uint64(0)))
	if n >= len(tag) {
		copy(body, tag)
	} else {
		// short bodies are made unique through an extra header instead
		r.Headers = append(r.Headers, HV{"x-uniq", tag})
	}
	r.Body = body
	return r
}

// DrawBundle draws a logical bundle.
func DrawBundle(c *core.Ctx, maxEx int, withSigs bool) *LBundle {
	lb := &LBundle{Order: map[string][]int{}}
	lb.Version = c.PickStr("bundle.version", "b1", "b2")
	n := c.Int("bundle.nex", 0, maxEx)
	if maxEx >= 4 && c.Chance("bundle.many", 1, 25) {
		// counts around the CBOR head-size steps of the responses array and the index map
		n = c.PickInt("bundle.nexMany", 23, 24, 25, 26, 255, 256, 257)
	}
	uniq := 0
	for i := 0; i < n; i++ {
		u := DrawURL(c, "bundle.url", uniq, lb.Version == "b2", "")
		if lb.Version == "b1" && c.Chance("bundle.variants", 1, 4) {
			drawVariantSet(c, lb, u, &uniq)
			continue
		}
		lb.Order[u] = []int{len(lb.Exchanges)}
		r := DrawResp(c, "bundle.resp", uniq)
		if n > 30 && len(r.Body) > 300 {
			r.Body = r.Body[:300]
		}
		if len(lb.Exchanges) > 0 && c.Chance("bundle.sameResponse", 1, 8) {
			// the same representation served under another URL (status, headers and body identical)
			prev := lb.Exchanges[c.Pick("bundle.sameAs", len(lb.Exchanges))]
			if len(prev.Resp.Headers) == 0 || prev.Resp.Headers[len(prev.Resp.Headers)-1].Name != "Variant-Key" {
				r = prev.Resp
				r.Headers = append([]HV(nil), prev.Resp.Headers...)
				r.Body = append([]byte(nil), prev.Resp.Body...)
				c.Probe("identical response under two URLs")
			}
		}
		if len(lb.Exchanges) > 0 && c.Chance("bundle.confusableHeaders", 1, 8) {
			// two responses whose header sets differ only in how the same characters are
			// divided between field lines, values and names: equal under careless
			// formatting (fmt's %v, strings.Join with a space), different on the wire
			prev := &lb.Exchanges[len(lb.Exchanges)-1]
			if n := len(prev.Resp.Headers); n == 0 || prev.Resp.Headers[n-1].Name != "Variant-Key" {
				r.Status, r.DirectMap = prev.Resp.Status, prev.Resp.DirectMap
				r.Headers = append([]HV(nil), prev.Resp.Headers...)
				switch c.Pick("bundle.confusableKind", 3) {
				case 0:
					prev.Resp.Headers = append(prev.Resp.Headers, HV{"X-List", "p"}, HV{"X-List", "q"})
					r.Headers = append(r.Headers, HV{"X-List", "p q"})
				case 1:
					prev.Resp.Headers = append(prev.Resp.Headers, HV{"X-List", "1"}, HV{"X-Lisu", "2"})
					r.Headers = append(r.Headers, HV{"X-List", "1] X-Lisu:[2"})
				default:
					prev.Resp.Headers = append(prev.Resp.Headers, HV{"X-List", "p"}, HV{"X-List", ""})
					r.Headers = append(r.Headers, HV{"X-List", "p "})
				}
				if len(r.Body) < 6 {
					r.Headers = append(r.Headers, HV{"x-uniq", fmt.Sprintf("#%05d", uniq)})
				}
				c.Probe("responses with confusable header sets")
			}
		}
		lb.Exchanges = append(lb.Exchanges, LExchange{URL: u, Resp: r})
		uniq++
	}
	if len(lb.Exchanges) >= 3 && c.Chance("bundle.interleaved", 1, 3) {
		// the caller did not add the representations of one URL next to each other: any
		// order of the exchanges that keeps each URL's own entries in their relative order
		// is the same bundle
		perm := c.Perm("bundle.interleave", len(lb.Exchanges))
		// stable within one URL: sort the positions each URL received
		byURL := map[string][]int{}
		for newPos, old := range perm {
			u := lb.Exchanges[old].URL
			byURL[u] = append(byURL[u], newPos)
		}
		newIdx := make([]int, len(lb.Exchanges)) // old index -> new index
		seen := map[string]int{}
		for old := range lb.Exchanges {
			u := lb.Exchanges[old].URL
			ps := append([]int(nil), byURL[u]...)
			sort.Ints(ps)
			newIdx[old] = ps[seen[u]]
			seen[u]++
		}
		ne := make([]LExchange, len(lb.Exchanges))
		for old, e := range lb.Exchanges {
			ne[newIdx[old]] = e
		}
		lb.Exchanges = ne
		for _, u := range core.SortedKeys(lb.Order) {
			o := append([]int(nil), lb.Order[u]...)
			for i := range o {
				if o[i] >= 0 {
					o[i] = newIdx[o[i]]
				}
			}
			lb.Order[u] = o
		}
		c.Probe("exchanges of one URL not adjacent")
	}
	if lb.Version == "b1" {
		// writer precondition: b1 always carries a primary URL in its header
		lb.Primary = DrawURL(c, "bundle.primary", 9000, false, "")
		if c.Chance("bundle.shortPrimary", 1, 4) {
			lb.Primary = c.PickStr("bundle.shortPrimaryURL", "https://a.b/", "http://x/", "https://a.bc/d", "h:/")
		}
		if c.Bool("bundle.manifest") {
			lb.Manifest = DrawURL(c, "bundle.manifestURL", 9001, false, "")
		}
	} else if c.Bool("bundle.hasPrimary") {
		lb.Primary = DrawURL(c, "bundle.primary", 9000, false, "")
	}
	if withSigs && c.Chance("bundle.sigs", 1, 3) {
		s := &LSigs{}
		na := c.Int("sigs.nauth", 0, 3)
		for i := 0; i < na; i++ {
			s.Authorities = append(s.Authorities, fixtures.Leaves[c.Pick("sigs.leaf", len(fixtures.Leaves))].Name)
		}
		if na > 0 && c.Bool("sigs.ocsp") {
			s.OCSP = append([]byte{}, c.Bytes("sigs.ocspBytes", 0, 40)...) // (present; possibly empty)
		}
		if na > 0 && c.Bool("sigs.sct") {
			s.SCT = append([]byte{}, c.Bytes("sigs.sctBytes", 0, 40)...)
			// (the signatures section is written element by element, without the chain-level
			// presence rules: an SCT list may sit on every authority)
			s.SCTOnAll = c.Chance("sigs.sctOnAll", 1, 4)
		}
		if len(s.OCSP) == 0 && s.OCSP != nil || len(s.SCT) == 0 && s.SCT != nil {
			c.Probe("signatures section: authority with a present-but-empty OCSP response / SCT list")
		}
		nv := c.Int("sigs.nvouched", 0, 3)
		for i := 0; i < nv; i++ {
			s.Vouched = append(s.Vouched, bundle.VouchedSubset{
				Authority: uint64(c.Int("sigs.authIdx", 0, 5)),
				Sig:       c.Bytes("sigs.sig", 0, 80),
				Signed:    c.Bytes("sigs.signed", 0, 300),
			})
		}
		lb.Sigs = s
	}
	return lb
}

// drawVariantSet adds a b1 variant set for URL u: 1-2 axes, 2-3 values each.
func drawVariantSet(c *core.Ctx, lb *LBundle, u string, uniq *int) {
	axisNames := []string{"Accept-Language", "Accept-Encoding"}
	axisVals := [][]string{{"en", "fr", "ja"}, {"gzip", "br", "identity"}}
	if c.Chance("var.quotedValues", 1, 4) {
		// values written as quoted strings, which need not be token-shaped
		axisNames = []string{"DPR", "Accept-Language"}
		axisVals = [][]string{{`"1"`, `"2"`, `"1.5"`}, {`"en"`, `"fr-CA"`, `"x y"`}}
		c.Probe("variants: quoted-string values")
	}
	nax := c.Int("var.naxes", 1, 2)
	var axes [][]string
	var parts []string
	for a := 0; a < nax; a++ {
		nv := c.Int("var.nvals", 2, 3)
		axes = append(axes, axisVals[a][:nv])
		parts = append(parts, axisNames[a]+";"+strings.Join(axisVals[a][:nv], ";"))
	}
	variants := strings.Join(parts, ", ")
	splitLines := c.Chance("var.repeatedFieldLines", 1, 4)
	if splitLines {
		c.Probe("variants: list-valued headers as repeated field lines")
	}
	// all possible keys in row-major order
	keys := []string{""}
	for a := 0; a < nax; a++ {
		var nk []string
		for _, k := range keys {
			for _, v := range axes[a] {
				if k == "" {
					nk = append(nk, v)
				} else {
					nk = append(nk, k+";"+v)
				}
			}
		}
		keys = nk
	}
	// group keys into entries; sometimes one entry covers two keys
	type ent struct{ keys []int }
	var ents []ent
	used := make([]bool, len(keys))
	for i := range keys {
		if used[i] {
			continue
		}
		e := ent{keys: []int{i}}
		used[i] = true
		if c.Chance("var.multikey", 1, 5) {
			for j := i + 1; j < len(keys); j++ {
				if !used[j] {
					e.keys = append(e.keys, j)
					used[j] = true
					lb.MultiKey = true
					break
				}
			}
		}
		ents = append(ents, e)
	}
	mode := c.Pick("var.mode", 8) // 0-3 complete, 4 incomplete, 5 overlapping, 6-7 a key that is no possible key
	expectErr := false
	var foreignKey string
	if mode >= 6 {
		// one representation names a Variant-Key outside the possible keys: a value no axis
		// lists (at a drawn axis), or a key with one component too few / too many. Whether
		// the remaining coverage is complete (mode 6) or has a hole (mode 7): refused.
		comp := strings.Split(keys[c.Pick("var.foreignBase", len(keys))], ";")
		switch c.Pick("var.foreignKind", 4) {
		case 0, 1:
			comp[c.Pick("var.foreignAxis", len(comp))] = c.PickStr("var.foreignVal", "de", "zh", "deflate", "x")
		case 2:
			comp = append(comp, "extra")
		default:
			if len(comp) > 1 {
				comp = comp[:len(comp)-1]
			} else {
				comp[0] = "zz"
			}
		}
		foreignKey = strings.Join(comp, ";")
		if mode == 7 && len(ents) >= 2 {
			drop := c.Pick("var.drop", len(ents))
			ents = append(ents[:drop:drop], ents[drop+1:]...)
		}
		ents = append(ents, ent{keys: []int{-1}})
		expectErr = true
		c.Probe("variants: a Variant-Key that is no possible key")
	}
	if mode == 4 && len(ents) >= 3 {
		// (with two entries, dropping one leaves a single exchange, which is
		// written without variants and is legal)
		drop := c.Pick("var.drop", len(ents))
		ents = append(ents[:drop:drop], ents[drop+1:]...)
		expectErr = true
		c.Probe("variants: incomplete coverage")
	}
	if mode == 5 {
		ents = append(ents, ent{keys: []int{ents[c.Pick("var.dup", len(ents))].keys[0]}})
		expectErr = true
		c.Probe("variants: overlapping coverage")
	}
	if expectErr {
		lb.ExpectWriteError = true
	}
	// insertion order of the entries is drawn
	perm := c.Perm("var.order", len(ents))
	pos := make([]int, len(keys))
	for i := range pos {
		pos[i] = -1
	}
	for _, pi := range perm {
		e := ents[pi]
		var ks []string
		for _, k := range e.keys {
			if k < 0 {
				ks = append(ks, foreignKey)
			} else {
				ks = append(ks, keys[k])
			}
		}
		r := DrawResp(c, "var.resp", *uniq)
		*uniq++
		r.DirectMap = false
		if splitLines {
			// the same list-valued fields given as repeated field lines (RFC 7230 3.2.2):
			// their combined value is the comma-joined list
			for _, part := range parts {
				r.Headers = append(r.Headers, HV{"Variants", part})
			}
			for _, k := range ks {
				r.Headers = append(r.Headers, HV{"Variant-Key", k})
			}
		} else {
			r.Headers = append(r.Headers, HV{"Variants", variants}, HV{"Variant-Key", strings.Join(ks, ", ")})
		}
		idx := len(lb.Exchanges)
		lb.Exchanges = append(lb.Exchanges, LExchange{URL: u, Resp: r})
		for _, k := range e.keys {
			if k >= 0 && pos[k] == -1 {
				pos[k] = idx
			}
		}
	}
	if len(ents) >= 2 || expectErr {
		lb.Order[u] = pos
		c.Probe("variants: set with >= 2 entries")
	} else {
		lb.Order[u] = []int{len(lb.Exchanges) - 1}
	}
}

// Header builds a fresh http.Header.
func (r LResp) Header() http.Header {
	h := http.Header{}
	for _, hv := range r.Headers {
		if r.DirectMap {
			h[hv.Name] = append(h[hv.Name], hv.Value)
		} else {
			h.Add(hv.Name, hv.Value)
		}
	}
	return h
}

// Canon is the canonical header map: lower-cased names, comma-joined values.
func (r LResp) Canon() map[string]string {
	m := map[string][]string{}
	var order []string
	for _, hv := range r.Headers {
		k := hv.Name
		if !r.DirectMap {
			k = http.CanonicalHeaderKey(k)
		}
		if _, ok := m[k]; !ok {
			order = append(order, k)
		}
		m[k] = append(m[k], hv.Value)
	}
	out := map[string]string{}
	for _, k := range order {
		lk := strings.ToLower(k)
		if _, dup := out[lk]; dup {
			out[lk] = "\x00collision"
			continue
		}
		out[lk] = strings.Join(m[k], ",")
	}
	return out
}

// CaseCollision reports whether two distinct header keys fold to the same
// lower-case name (the writer refuses such maps as duplicate CBOR keys).
func (r LResp) CaseCollision() bool {
	for _, v := range r.Canon() {
		if v == "\x00collision" {
			return true
		}
	}
	return false
}

func mustURL(s string) *url.URL {
	u, err := url.Parse(s)
	if err != nil {
		panic(err)
	}
	return u
}

// ToRepo builds a fresh repository Bundle.
func (lb *LBundle) ToRepo() *bundle.Bundle {
	b := &bundle.Bundle{Version: version.Version(lb.Version)}
	if lb.Primary != "" {
		b.PrimaryURL = mustURL(lb.Primary)
	}
	if lb.Manifest != "" {
		b.ManifestURL = mustURL(lb.Manifest)
	}
	for _, e := range lb.Exchanges {
		b.Exchanges = append(b.Exchanges, &bundle.Exchange{
			Request:  bundle.Request{URL: mustURL(e.URL)},
			Response: bundle.Response{Status: e.Resp.Status, Header: e.Resp.Header(), Body: append([]byte(nil), e.Resp.Body...)},
		})
	}
	if lb.Sigs != nil {
		s := &bundle.Signatures{}
		for i, n := range lb.Sigs.Authorities {
			ac := &certurl.AugmentedCertificate{Cert: fixtures.ByName(n).Cert()}
			if i == 0 {
				ac.OCSPResponse = lb.Sigs.OCSP
				ac.SCTList = lb.Sigs.SCT
			} else if lb.Sigs.SCTOnAll {
				ac.SCTList = lb.Sigs.SCT
			}
			s.Authorities = append(s.Authorities, ac)
		}
		for i := range lb.Sigs.Vouched {
			v := lb.Sigs.Vouched[i]
			s.VouchedSubsets = append(s.VouchedSubsets, &bundle.VouchedSubset{Authority: v.Authority, Sig: append([]byte(nil), v.Sig...), Signed: append([]byte(nil), v.Signed...)})
		}
		b.Signatures = s
	}
	return b
}

// URLs returns the distinct URLs in sorted order.
func (lb *LBundle) URLs() []string {
	var us []string
	for u := range lb.Order {
		us = append(us, u)
	}
	sort.Strings(us)
	return us
}

// Describe is a short description for the event log.
func (lb *LBundle) Describe() string {
	return fmt.Sprintf("bundle %s ex=%d urls=%d primary=%v manifest=%v sigs=%v multikey=%v expectWriteErr=%v", lb.Version, len(lb.Exchanges), len(lb.Order), lb.Primary != "", lb.Manifest != "", lb.Sigs != nil, lb.MultiKey, lb.ExpectWriteError)
}
