module verifsim

go 1.23

require (
	github.com/WICG/webpackage v0.0.0
	pgregory.net/rapid v1.3.0
)

require golang.org/x/crypto v0.31.0 // indirect

replace github.com/WICG/webpackage => /repo
