package core

import (
	"encoding/json"
	"os"
	"regexp"
	"strings"
	"sync"
)

// The workload dictionary: string literals of the tree under test, written by
// the driver (VERIF_DICT). It is a function of the tree alone, so runs stay a
// function of (tree, seed). Worlds draw "special" names from it in addition to
// their hand-written lists; with no dictionary the lists stand alone.

var (
	dictOnce  sync.Once
	dictWords []string
	dictCache sync.Map
)

func loadDict() {
	if p := os.Getenv("VERIF_DICT"); p != "" {
		if b, err := os.ReadFile(p); err == nil {
			json.Unmarshal(b, &dictWords)
		}
	}
}

// Dict returns the dictionary words matching re (sorted, as written by the driver),
// without those in exclude (compared case-insensitively).
func Dict(re string, exclude ...string) []string {
	dictOnce.Do(loadDict)
	key := re + "\x00" + strings.Join(exclude, "\x00")
	if v, ok := dictCache.Load(key); ok {
		return v.([]string)
	}
	r := regexp.MustCompile(re)
	ex := map[string]bool{}
	for _, e := range exclude {
		ex[strings.ToLower(e)] = true
	}
	var out []string
	for _, w := range dictWords {
		if r.MatchString(w) && !ex[strings.ToLower(w)] {
			out = append(out, w)
		}
	}
	dictCache.Store(key, out)
	return out
}

// HeaderNameRe matches dictionary words usable as HTTP header field names.
const HeaderNameRe = `^[A-Za-z][A-Za-z0-9-]{1,40}$`

// PickDict draws from own ++ dictionary words matching re (minus exclude).
func (c *Ctx) PickDict(label string, own []string, re string, exclude ...string) string {
	d := Dict(re, exclude...)
	if len(own)+len(d) == 0 {
		return ""
	}
	i := c.Pick(label, len(own)+len(d))
	if i < len(own) {
		return own[i]
	}
	c.Probe("name drawn from the tree's own string literals")
	return d[i-len(own)]
}
