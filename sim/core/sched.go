package core

import (
	"fmt"
	"os"
	"runtime"
	"sync/atomic"
	"time"
)

// Cooperative scheduler: caller tasks are real goroutines, but exactly one runs
// at a time; a task parks whenever it calls the yield function it was given
// (worlds install it as the OnCall hook of the task's simulated reader or
// writer), and the next task to run is a Draw. One seed, one interleaving.

type coTask struct {
	resume  chan struct{}
	yielded chan struct{}
	done    bool
	panicV  interface{}
	gid     uint64
}

// Goid returns the current goroutine's id (parsed from the stack header; about a
// microsecond). The schedulers use it to tell a task's own goroutine from
// goroutines the code under test may start itself: only the former can be parked.
func Goid() uint64 {
	var b [40]byte
	n := runtime.Stack(b[:], false)
	var id uint64
	for _, ch := range b[len("goroutine "):n] {
		if ch < '0' || ch > '9' {
			break
		}
		id = id*10 + uint64(ch-'0')
	}
	return id
}

// StallAfter: a resumed task that neither parks nor finishes within this (real) time is
// taken to be blocked on something another, parked task holds (a lock inside the code
// under test) or to be waiting for goroutines of its own; the scheduler then lets
// another task run beside it instead of waiting forever. DeadlockAfter: no task is
// parked, none finishes. Both only ever matter for code that blocks, which the
// unchanged tree never does; a run that needed them is no longer a function of the seed
// alone and says so in its event log.
var (
	StallAfter    = 5 * time.Second
	DeadlockAfter = 40 * time.Second
	everStalled   atomic.Bool
)

// StallLimit is StallAfter until a task of this process was once seen blocked; from then
// on the code under test is known to block, and waiting long for every parked lock holder
// would only cost time.
func StallLimit() time.Duration {
	if everStalled.Load() {
		return 20 * time.Millisecond
	}
	return StallAfter
}

// NoteStall records that a resumed task did not come back in time.
func NoteStall() { everStalled.Store(true) }

// RunTasks runs the tasks to completion under a drawn schedule and returns the
// schedule (task index per step, capped) and the panic value of each task.
func (c *Ctx) RunTasks(label string, tasks []func(yield func())) (string, []interface{}) {
	var expectedG atomic.Int64 // goroutines in the process while all live ones are the harness's own
	expectedG.Store(-1)
	baseG := int64(runtime.NumGoroutine())
	timer := time.NewTimer(time.Hour)
	defer timer.Stop()
	ts := make([]*coTask, len(tasks))
	for i := range tasks {
		t := &coTask{resume: make(chan struct{}), yielded: make(chan struct{})}
		ts[i] = t
		fn := tasks[i]
		started := make(chan struct{})
		go func() {
			t.gid = Goid()
			close(started)
			<-t.resume
			defer func() {
				if r := recover(); r != nil {
					t.panicV = r
				}
				t.done = true
				t.yielded <- struct{}{}
			}()
			fn(func() {
				if int64(runtime.NumGoroutine()) != expectedG.Load() && Goid() != t.gid {
					return // a goroutine the code under test started: cannot be parked
				}
				t.yielded <- struct{}{}
				<-t.resume
			})
		}()
		<-started
	}
	var sched []byte
	var running []int // resumed, neither parked nor finished within StallAfter
	isRunning := func(i int) bool {
		for _, r := range running {
			if r == i {
				return true
			}
		}
		return false
	}
	collect := func(wait time.Duration) bool {
		deadline := time.Now().Add(wait)
		for {
			for k := 0; k < len(running); k++ {
				select {
				case <-ts[running[k]].yielded:
					running = append(running[:k], running[k+1:]...)
					return true
				default:
				}
			}
			if wait == 0 || time.Now().After(deadline) {
				return false
			}
			time.Sleep(2 * time.Millisecond)
		}
	}
	for {
		for collect(0) {
		}
		var live []int
		for i, t := range ts {
			if !t.done && !isRunning(i) {
				live = append(live, i)
			}
		}
		if len(live) == 0 {
			if len(running) == 0 {
				break
			}
			if !collect(DeadlockAfter) {
				c.Event("scheduler: %d task(s) blocked, none parked: deadlock or endless loop in the code under test", len(running))
				c.Deadlock(label)
				break
			}
			continue
		}
		i := live[c.Pick(label+".next", len(live))]
		if len(sched) < 96 {
			sched = append(sched, byte('0'+i))
		}
		alive := 0
		for _, t := range ts {
			if !t.done {
				alive++
			}
		}
		if len(running) == 0 {
			expectedG.Store(baseG + int64(alive))
		} else {
			expectedG.Store(-1)
		}
		if !timer.Stop() {
			select {
			case <-timer.C:
			default:
			}
		}
		timer.Reset(StallLimit())
		ts[i].resume <- struct{}{}
		select {
		case <-ts[i].yielded:
		case <-timer.C:
			NoteStall()
			running = append(running, i)
			c.Event("scheduler: task %d is blocked; letting another task run beside it (run no longer a function of the seed alone)", i)
			c.Probe("scheduler: a resumed task blocked (lock held by a parked task, or waiting for its own goroutines)")
		}
	}
	panics := make([]interface{}, len(ts))
	for i, t := range ts {
		panics[i] = t.panicV
	}
	return string(sched), panics
}

// Deadlock is called by a scheduler when every unfinished task is blocked and none is
// parked. Totality is stated by C10 and "concurrent calls yield their output" by C18 (and
// by the round-trip properties run under a scheduler, C14); under other properties the
// worker stops as an infrastructure problem, never as a violation.
func (c *Ctx) Deadlock(label string) {
	if c.Oracle("C10", "C18", "C14") {
		c.Violation("deadlock", label, "all unfinished concurrent callers are blocked and none is parked by the scheduler")
	}
	fmt.Fprintf(os.Stdout, "VERIF-HANG property=%s call=%s run=%d limit=%v\n", activeProp, label, guardRun.Load(), DeadlockAfter)
	os.Exit(3)
}
