package core

// Cooperative scheduler: caller tasks are real goroutines, but exactly one runs
// at a time; a task parks whenever it calls the yield function it was given
// (worlds install it as the OnCall hook of the task's simulated reader or
// writer), and the next task to run is a Draw. One seed, one interleaving.

type coTask struct {
	resume  chan struct{}
	yielded chan struct{}
	done    bool
	panicV  interface{}
}

// RunTasks runs the tasks to completion under a drawn schedule and returns the
// schedule (task index per step, capped) and the panic value of each task.
func (c *Ctx) RunTasks(label string, tasks []func(yield func())) (string, []interface{}) {
	ts := make([]*coTask, len(tasks))
	for i := range tasks {
		t := &coTask{resume: make(chan struct{}), yielded: make(chan struct{})}
		ts[i] = t
		fn := tasks[i]
		go func() {
			<-t.resume
			defer func() {
				if r := recover(); r != nil {
					t.panicV = r
				}
				t.done = true
				t.yielded <- struct{}{}
			}()
			fn(func() {
				t.yielded <- struct{}{}
				<-t.resume
			})
		}()
	}
	var sched []byte
	for {
		var live []int
		for i, t := range ts {
			if !t.done {
				live = append(live, i)
			}
		}
		if len(live) == 0 {
			break
		}
		i := live[c.Pick(label+".next", len(live))]
		if len(sched) < 96 {
			sched = append(sched, byte('0'+i))
		}
		ts[i].resume <- struct{}{}
		<-ts[i].yielded
	}
	panics := make([]interface{}, len(ts))
	for i, t := range ts {
		panics[i] = t.panicV
	}
	return string(sched), panics
}
