// Package core is the deterministic simulator shared by all worlds: a single
// choice source (rapid), simulated readers/writers/blobs with fault injection,
// a watchdog around every call into repository code, an event log and
// per-process statistics that the driver aggregates into evidence.
//
// Rules kept everywhere in this package:
//   - every decision is a labelled Draw from the rapid bit stream;
//   - logging never draws and never reads a real clock;
//   - no iteration over Go maps influences behaviour or the event log.
package core

import (
	"fmt"
	"hash/fnv"
	"os"
	"sort"
	"strings"

	"pgregory.net/rapid"
)

// Ctx is one simulated run.
type Ctx struct {
	T        *rapid.T
	Prop     string // property whose oracle is active (VERIF_ORACLE)
	Config   string // configuration (test function) name
	events   []string
	faults   []string // fired fault kinds, in order
	nfault   int
	outcome  string
	sig      []string // extra signature components (schedule / shape class)
	finished bool
	simTimeS int64 // simulated seconds covered by this run
	cleanups []func()
}

// Cleanup registers fn to run when the run ends (scratch files).
func (c *Ctx) Cleanup(fn func()) { c.cleanups = append(c.cleanups, fn) }

// ActiveProp returns the property id whose oracle the process evaluates.
func ActiveProp() string {
	p := os.Getenv("VERIF_ORACLE")
	if p == "" {
		p = "C00"
	}
	return p
}

var activeProp = ActiveProp()

// NewCtx starts a run. Call defer c.Finish() right after.
func NewCtx(t *rapid.T, config string) *Ctx {
	c := &Ctx{T: t, Prop: activeProp, Config: config}
	G.beginRun(c)
	return c
}

// Oracle reports whether the oracle of the given property is active.
func (c *Ctx) Oracle(ids ...string) bool {
	for _, id := range ids {
		if c.Prop == id {
			return true
		}
	}
	return false
}

// ---- choices ---------------------------------------------------------------

func (c *Ctx) Int(label string, lo, hi int) int {
	if hi <= lo {
		return lo
	}
	return rapid.IntRange(lo, hi).Draw(c.T, label)
}

func (c *Ctx) U64(label string, lo, hi uint64) uint64 {
	if hi <= lo {
		return lo
	}
	return rapid.Uint64Range(lo, hi).Draw(c.T, label)
}

func (c *Ctx) I64(label string, lo, hi int64) int64 {
	if hi <= lo {
		return lo
	}
	return rapid.Int64Range(lo, hi).Draw(c.T, label)
}

func (c *Ctx) Bool(label string) bool { return rapid.Bool().Draw(c.T, label) }

// Chance is true with probability about num/den (shrinks towards false).
func (c *Ctx) Chance(label string, num, den int) bool {
	return rapid.IntRange(0, den-1).Draw(c.T, label) >= den-num
}

// Pick returns an index in [0,n).
func (c *Ctx) Pick(label string, n int) int {
	if n <= 1 {
		return 0
	}
	return rapid.IntRange(0, n-1).Draw(c.T, label)
}

// PickInt returns one of the listed values.
func (c *Ctx) PickInt(label string, vals ...int) int { return vals[c.Pick(label, len(vals))] }

// PickStr returns one of the listed values.
func (c *Ctx) PickStr(label string, vals ...string) string { return vals[c.Pick(label, len(vals))] }

// Bytes draws a byte string of length in [lo,hi].
func (c *Ctx) Bytes(label string, lo, hi int) []byte {
	n := c.Int(label+".len", lo, hi)
	return c.BytesN(label, n)
}

// BytesN draws exactly n bytes: a drawn 64-bit pattern expanded by an LCG
// (so large payloads cost one draw, remain a pure function of the bit stream
// and shrink towards the all-zero pattern).
func (c *Ctx) BytesN(label string, n int) []byte {
	if n == 0 {
		return []byte{}
	}
	s := c.U64(label+".pat", 0, ^uint64(0))
	b := make([]byte, n)
	FillPattern(b, s)
	return b
}

// FillPattern fills b deterministically from s.
func FillPattern(b []byte, s uint64) {
	x := s
	for i := range b {
		x = x*6364136223846793005 + 1442695040888963407
		b[i] = byte(x >> 56)
	}
}

// Perm draws a permutation of n elements.
func (c *Ctx) Perm(label string, n int) []int {
	p := make([]int, n)
	for i := range p {
		p[i] = i
	}
	for i := n - 1; i > 0; i-- {
		j := c.Int(label, 0, i)
		p[i], p[j] = p[j], p[i]
	}
	return p
}

// ---- log / accounting ------------------------------------------------------

// Event appends to the run's event log (hashed into the determinism digest).
func (c *Ctx) Event(format string, args ...interface{}) {
	s := fmt.Sprintf(format, args...)
	if len(s) > 300 {
		s = s[:300] + "…"
	}
	c.events = append(c.events, s)
	c.T.Logf("[sim] %s", s)
}

// Fault records that a fault of the given kind actually fired.
func (c *Ctx) Fault(kind string) {
	c.nfault++
	if len(c.faults) < 16 {
		c.faults = append(c.faults, kind)
	}
	G.faultFired(kind)
	c.Event("fault %s", kind)
}

// Probe counts a rare-branch hit.
func (c *Ctx) Probe(name string) { G.probe(name) }

// Sig adds a component to the run's distinctness signature.
func (c *Ctx) Sig(format string, args ...interface{}) {
	if len(c.sig) < 24 {
		c.sig = append(c.sig, fmt.Sprintf(format, args...))
	}
}

// Outcome sets the outcome class of the run (part of the signature).
func (c *Ctx) Outcome(o string) { c.outcome = o }

// SimTime adds simulated seconds covered.
func (c *Ctx) SimTime(s int64) {
	if s > 0 {
		c.simTimeS += s
	}
}

// NFaults is the number of faults fired so far in this run.
func (c *Ctx) NFaults() int { return c.nfault }

// Finish folds the run into the process statistics.
func (c *Ctx) Finish() {
	if c.finished {
		return
	}
	c.finished = true
	for i := len(c.cleanups) - 1; i >= 0; i-- {
		c.cleanups[i]()
	}
	G.endRun(c)
}

func (c *Ctx) logHash() uint64 {
	h := fnv.New64a()
	for _, e := range c.events {
		h.Write([]byte(e))
		h.Write([]byte{0})
	}
	return h.Sum64()
}

func (c *Ctx) sigHash() (uint64, string) {
	s := c.Config + "|" + strings.Join(c.faults, ",") + "|" + c.outcome + "|" + strings.Join(c.sig, ",")
	h := fnv.New64a()
	h.Write([]byte(s))
	return h.Sum64(), s
}

// ---- violations ------------------------------------------------------------

// Violation reports a violation of the active property. class is the violation
// class (stable, part of the fingerprint); site narrows it (stable); the
// formatted detail is logged but is not part of the failure message, so that
// rapid's shrinker (which compares failure sites) can minimise within one
// class. A fingerprint listed in known_findings.txt is counted and the run
// ends as passed.
func (c *Ctx) Violation(class, site string, format string, args ...interface{}) {
	c.T.Helper()
	fp := strings.ReplaceAll(class+":"+site, " ", "_")
	detail := fmt.Sprintf(format, args...)
	if len(detail) > 2000 {
		detail = detail[:2000] + "…"
	}
	if G.isKnown(c.Prop, fp) {
		G.knownSeen(c.Prop, fp)
		c.Event("known-finding %s", fp)
		c.Outcome("known:" + fp)
		c.Finish()
		panic(knownFindingAbort{})
	}
	c.Event("VIOLATION %s %s", fp, detail)
	c.Outcome("violation:" + fp)
	G.violation(c.Prop, fp)
	c.T.Logf("[sim] event-log:\n  %s", strings.Join(c.events, "\n  "))
	c.T.Fatalf("VERIF-VIOLATION property=%s config=%s fingerprint=%s", c.Prop, c.Config, fp)
}

type knownFindingAbort struct{}

// Run wraps a world's run function: creates the Ctx, absorbs the abort used
// for known findings, and always folds statistics.
func Run(t *rapid.T, config string, fn func(c *Ctx)) {
	c := NewCtx(t, config)
	defer c.Finish()
	defer func() {
		if r := recover(); r != nil {
			if _, ok := r.(knownFindingAbort); ok {
				return
			}
			panic(r)
		}
	}()
	fn(c)
}

// SortedKeys returns the keys of a string-keyed map in sorted order (the only
// way harness code is allowed to walk a map).
func SortedKeys[V any](m map[string]V) []string {
	ks := make([]string, 0, len(m))
	for k := range m {
		ks = append(ks, k)
	}
	sort.Strings(ks)
	return ks
}

// PickI64 returns one of the listed values.
func (c *Ctx) PickI64(label string, vals ...int64) int64 { return vals[c.Pick(label, len(vals))] }

// PickU64 returns one of the listed values.
func (c *Ctx) PickU64(label string, vals ...uint64) uint64 { return vals[c.Pick(label, len(vals))] }

// Tier is the tier the driver runs ("quick" or "thorough").
func Tier() string {
	if t := os.Getenv("VERIF_TIER"); t != "" {
		return t
	}
	return "quick"
}
