package core

import (
	"fmt"
	"os"
	"runtime"
	"runtime/debug"
	"strings"
	"sync/atomic"
	"time"
)

// PanicInfo describes a panic recovered from repository code.
type PanicInfo struct {
	Value string
	Site  string // first frame inside the repository (file:line func)
	Stack string
}

var (
	guardName  atomic.Value // string
	guardStart atomic.Int64 // unix nano of the current guarded call, 0 = none
	guardRun   atomic.Int64
)

// HangLimit is the wall-clock backstop for one guarded call. It is four to
// five orders of magnitude above the normal cost of any call on inputs of the
// sizes the worlds generate.
var HangLimit = 30 * time.Second

func startHangWatch() {
	go func() {
		for {
			time.Sleep(500 * time.Millisecond)
			st := guardStart.Load()
			if st != 0 && time.Since(time.Unix(0, st)) > HangLimit {
				name, _ := guardName.Load().(string)
				fmt.Fprintf(os.Stdout, "VERIF-HANG property=%s call=%s run=%d limit=%v\n", activeProp, name, guardRun.Load(), HangLimit)
				buf := make([]byte, 1<<16)
				n := runtime.Stack(buf, true)
				fmt.Fprintf(os.Stdout, "%s\n", buf[:n])
				os.Exit(3)
			}
		}
	}()
}

// Guard calls fn (a call into repository code), recovering any panic raised
// inside it. Panics that belong to the harness itself (rapid's control-flow
// panics, the known-finding abort) are passed through.
func (c *Ctx) Guard(name string, fn func()) (pi *PanicInfo) {
	G.mu.Lock()
	G.GuardCalls[name]++
	run := G.curRun
	G.mu.Unlock()
	guardName.Store(name)
	guardRun.Store(run)
	guardStart.Store(time.Now().UnixNano())
	defer func() {
		guardStart.Store(0)
		if r := recover(); r != nil {
			tn := fmt.Sprintf("%T", r)
			if strings.Contains(tn, "rapid.") || tn == "core.knownFindingAbort" {
				panic(r)
			}
			st := string(debug.Stack())
			pi = &PanicInfo{Value: fmt.Sprint(r), Site: repoSite(st), Stack: st}
		}
	}()
	fn()
	return nil
}

// repoSite extracts the innermost repository function from a stack dump: the
// function name only (no line number), so the fingerprint survives unrelated
// edits of the file.
func repoSite(stack string) string {
	lines := strings.Split(stack, "\n")
	seenPanic := false
	for i := 0; i < len(lines); i++ {
		l := lines[i]
		if strings.HasPrefix(l, "panic(") {
			seenPanic = true
			continue
		}
		if !seenPanic {
			continue
		}
		if strings.HasPrefix(l, "github.com/WICG/webpackage/") {
			fn := strings.TrimPrefix(l, "github.com/WICG/webpackage/go/")
			if k := strings.LastIndex(fn, "("); k > 0 {
				fn = fn[:k]
			}
			return fn
		}
	}
	// panic raised below the repo frames only in std code called by harness
	for _, l := range lines {
		if strings.HasPrefix(l, "github.com/WICG/webpackage/") {
			fn := strings.TrimPrefix(l, "github.com/WICG/webpackage/go/")
			if k := strings.LastIndex(fn, "("); k > 0 {
				fn = fn[:k]
			}
			return fn
		}
	}
	return "unknown"
}

// GuardAlloc is Guard plus a measurement of bytes allocated during the call.
func (c *Ctx) GuardAlloc(name string, fn func()) (pi *PanicInfo, alloc uint64) {
	var m0, m1 runtime.MemStats
	runtime.ReadMemStats(&m0)
	pi = c.Guard(name, fn)
	runtime.ReadMemStats(&m1)
	alloc = m1.TotalAlloc - m0.TotalAlloc
	G.mu.Lock()
	if alloc > G.MaxAlloc[name] {
		G.MaxAlloc[name] = alloc
	}
	G.mu.Unlock()
	return pi, alloc
}

// AllocBudget is the memory bound of C10: a constant plus a small multiple of
// the input size. The constant covers fixed-size prologue buffers (two 3-byte
// length fields = 2 x 16 MiB) and x509 parsing; the failure mode targeted is
// trusting a declared length or count.
func AllocBudget(inputLen int) uint64 { return 64<<20 + 512*uint64(inputLen) }

// CheckTotal applies the C10 oracle to the result of a guarded call.
func (c *Ctx) CheckTotal(name string, inputLen int, pi *PanicInfo, alloc uint64) {
	c.T.Helper()
	if pi != nil && strings.HasPrefix(pi.Value, "sim: unbounded-reads") {
		c.Violation("unbounded-reads", name, "%s", pi.Value)
	}
	if pi != nil {
		c.Violation("panic", pi.Site, "%s panicked: %s\n%s", name, pi.Value, trimStack(pi.Stack))
	}
	// (the memory bound is C10's clause alone; other properties' runs pass through here for
	// the panic clause)
	if alloc > AllocBudget(inputLen) && (c.Prop == "C10" || c.Prop == "C00") {
		c.Violation("alloc", name, "%s allocated %d bytes on a %d-byte input (budget %d)", name, alloc, inputLen, AllocBudget(inputLen))
	}
}

func trimStack(s string) string {
	lines := strings.Split(s, "\n")
	if len(lines) > 40 {
		lines = lines[:40]
	}
	return strings.Join(lines, "\n")
}

// MeasurePeak runs fn once more under a tight garbage collector (GOGC=10, so that
// allocation churn is reclaimed promptly) while a sampler polls the heap, and
// returns the highest heap size seen above the baseline: an estimate of the
// PEAK live memory fn needs, as opposed to the cumulative allocation that
// GuardAlloc reports. It is used to re-judge calls whose cumulative allocation
// exceeded the budget: garbage produced and dropped along the way is not
// "memory", a large buffer allocated from a declared length is. The sampler is a
// real goroutine; the estimate only feeds a comparison with wide margins.
func MeasurePeak(fn func()) uint64 {
	old := debug.SetGCPercent(10)
	defer debug.SetGCPercent(old)
	runtime.GC()
	var ms runtime.MemStats
	runtime.ReadMemStats(&ms)
	base := ms.HeapAlloc
	var peak atomic.Uint64
	stop := make(chan struct{})
	done := make(chan struct{})
	go func() {
		defer close(done)
		var s runtime.MemStats
		for {
			select {
			case <-stop:
				return
			default:
			}
			runtime.ReadMemStats(&s)
			if s.HeapAlloc > peak.Load() {
				peak.Store(s.HeapAlloc)
			}
			time.Sleep(200 * time.Microsecond)
		}
	}()
	func() {
		defer func() { recover() }()
		fn()
	}()
	close(stop)
	<-done
	runtime.ReadMemStats(&ms)
	if ms.HeapAlloc > peak.Load() {
		peak.Store(ms.HeapAlloc)
	}
	if peak.Load() < base {
		return 0
	}
	return peak.Load() - base
}
