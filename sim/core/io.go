package core

import (
	"bytes"
	"bufio"
	"errors"
	"fmt"
	"io"
	"os"
	"os/signal"
	"sync"
	"syscall"
)

// ErrInjected is the error simulated devices return when a fault fires.
var ErrInjected = errors.New("sim: injected I/O error")

// ErrInjectedTransient is an injected error after which the device keeps working;
// like a deadline error of package net it reports itself as temporary.
var ErrInjectedTransient error = transientErr{}

type transientErr struct{}

func (transientErr) Error() string   { return "sim: injected transient I/O error" }
func (transientErr) Temporary() bool { return true }
func (transientErr) Timeout() bool   { return true }

// ---------------------------------------------------------------------------
// SimReader: delivery of a byte string to a consumer under a drawn schedule.

// ReaderPlan is the delivery schedule and fault plan of a SimReader. It is
// drawn up-front (so that a plan is a value that can be logged and shrunk),
// except for per-call chunk lengths in "random" mode.
type ReaderPlan struct {
	Mode        int  // 0 whole buffer, 1 fixed chunk, 2 random chunk per call, 3 one byte
	Chunk       int  // chunk size for modes 1, 2 (upper bound)
	CoalesceEOF bool // deliver (n>0, io.EOF) with the last bytes
	Stalls      int  // total number of (0,nil) returns allowed (never two in a row)
	ErrAt       int  // offset at which an error is injected, -1 none
	ErrKind     int  // 0 sticky ErrInjected, 1 transient (consumes nothing, then continues), 2 io.ErrUnexpectedEOF sticky
	ErrWithData bool // deliver the bytes before ErrAt together with the error in one call
}

// DrawReaderPlan draws a schedule; faults only if allowFaults.
func (c *Ctx) DrawReaderPlan(label string, size int, allowFaults bool) ReaderPlan {
	p := ReaderPlan{ErrAt: -1}
	p.Mode = c.Pick(label+".mode", 4)
	switch p.Mode {
	case 1, 2:
		p.Chunk = c.PickInt(label+".chunk", 1, 2, 3, 7, 8, 9, 31, 32, 33, 64, 511, 4096)
	case 3:
		p.Chunk = 1
		if size > 1<<16 { // one-byte delivery of big inputs costs too much; keep it rare but legal
			p.Mode, p.Chunk = 1, 4096
		}
	}
	p.CoalesceEOF = c.Bool(label + ".coalesceEOF")
	if c.Chance(label+".stall", 1, 4) {
		p.Stalls = c.Int(label+".stalls", 1, 4)
	}
	if allowFaults && c.Chance(label+".err", 1, 3) {
		p.ErrAt = c.Int(label+".errAt", 0, size)
		p.ErrKind = c.Pick(label+".errKind", 3)
		p.ErrWithData = c.Bool(label + ".errWithData")
	}
	return p
}

func (p ReaderPlan) String() string {
	return fmt.Sprintf("{mode=%d chunk=%d coalesce=%v stalls=%d errAt=%d errKind=%d withData=%v}", p.Mode, p.Chunk, p.CoalesceEOF, p.Stalls, p.ErrAt, p.ErrKind, p.ErrWithData)
}

// SimReader is an io.Reader (and optionally io.Seeker) over a byte string.
type SimReader struct {
	c         *Ctx
	name      string
	data      []byte
	pos       int
	plan      ReaderPlan
	Calls     int  // Read calls issued by the consumer
	ZeroCalls int  // Read calls with len(p)==0
	stalled   bool // last return was a stall
	errFired  bool
	ErrSeen   error // the injected error once delivered
	eofSeen   bool
	AfterEOF  int // Read calls after EOF/sticky error was delivered
	// Seek
	SeekFailAt int // fail the n-th Seek call (1-based), 0 never
	seeks      int
	// budget: calls allowed before "unbounded reads" (0 = unlimited)
	CallBudget int
	MaxPos     int
	OnCall     func() // scheduler yield hook (cooperative tasks park at every Read)
}

// NewReader creates a SimReader delivering data under plan.
func (c *Ctx) NewReader(name string, data []byte, plan ReaderPlan) *SimReader {
	r := &SimReader{c: c, name: name, data: data, plan: plan}
	// Liveness bound (bounded progress): a consumer of n bytes needs at most
	// one call per byte, plus stalls, plus a constant for EOF probing. The
	// factor of 4 leaves room for legitimate re-probing; an unbounded loop
	// exceeds any constant.
	r.CallBudget = 4*len(data) + 4*plan.Stalls + 256
	return r
}

// Consumed is how many bytes the consumer has taken from the stream.
func (r *SimReader) Consumed() int { return r.pos }

// Remaining returns the undelivered suffix.
func (r *SimReader) Remaining() []byte { return r.data[r.pos:] }

func (r *SimReader) Read(p []byte) (int, error) {
	r.Calls++
	if r.OnCall != nil {
		r.OnCall()
	}
	if r.CallBudget > 0 && r.Calls > r.CallBudget {
		// Break the loop: this is reported by the world as class unbounded-reads.
		panic(fmt.Sprintf("sim: unbounded-reads on %s: %d Read calls for %d bytes", r.name, r.Calls, len(r.data)))
	}
	if len(p) == 0 {
		r.ZeroCalls++
		return 0, nil
	}
	if r.errFired && r.plan.ErrKind != 1 {
		r.AfterEOF++
		return 0, r.ErrSeen
	}
	// stall
	if r.plan.Stalls > 0 && !r.stalled && r.pos < len(r.data) && r.c.Chance(r.name+".stallNow", 1, 3) {
		r.plan.Stalls--
		r.stalled = true
		r.c.Fault("read-stall")
		return 0, nil
	}
	r.stalled = false
	limit := len(r.data)
	errPending := r.plan.ErrAt >= 0 && !r.errFired
	if errPending && r.plan.ErrAt < limit {
		limit = r.plan.ErrAt
	}
	if errPending && r.pos >= r.plan.ErrAt {
		return r.fireErr()
	}
	if r.pos >= len(r.data) {
		if r.eofSeen {
			r.AfterEOF++
		}
		r.eofSeen = true
		return 0, io.EOF
	}
	n := len(p)
	switch r.plan.Mode {
	case 1:
		if n > r.plan.Chunk {
			n = r.plan.Chunk
		}
	case 2:
		k := r.c.Int(r.name+".n", 1, r.plan.Chunk)
		if n > k {
			n = k
		}
	case 3:
		n = 1
	}
	if n > limit-r.pos {
		n = limit - r.pos
	}
	copy(p, r.data[r.pos:r.pos+n])
	r.pos += n
	if r.pos > r.MaxPos {
		r.MaxPos = r.pos
	}
	if errPending && r.pos >= r.plan.ErrAt && r.plan.ErrWithData {
		_, err := r.fireErr()
		return n, err
	}
	if r.pos >= len(r.data) && r.plan.CoalesceEOF && !errPending {
		r.eofSeen = true
		r.c.Probe("reader: (n>0, EOF) coalesced")
		return n, io.EOF
	}
	return n, nil
}

func (r *SimReader) fireErr() (int, error) {
	r.errFired = true
	switch r.plan.ErrKind {
	case 0:
		r.ErrSeen = ErrInjected
		r.c.Fault("read-error-sticky")
	case 1:
		r.ErrSeen = ErrInjectedTransient
		r.c.Fault("read-error-transient")
		r.plan.ErrAt = -1
	default:
		r.ErrSeen = io.ErrUnexpectedEOF
		r.c.Fault("read-error-unexpectedEOF")
	}
	return 0, r.ErrSeen
}

// Seek implements io.Seeker (used by the integrity-block world).
func (r *SimReader) Seek(off int64, whence int) (int64, error) {
	r.seeks++
	if r.SeekFailAt != 0 && r.seeks == r.SeekFailAt {
		r.c.Fault("seek-error")
		return int64(r.pos), ErrInjected
	}
	var np int64
	switch whence {
	case io.SeekStart:
		np = off
	case io.SeekCurrent:
		np = int64(r.pos) + off
	case io.SeekEnd:
		np = int64(len(r.data)) + off
	}
	if np < 0 {
		return int64(r.pos), errors.New("sim: negative seek position")
	}
	if np > int64(len(r.data)) {
		np = int64(len(r.data))
	}
	r.pos = int(np)
	r.eofSeen = false
	return np, nil
}

// ---------------------------------------------------------------------------
// SimWriter: a destination device that may fail after accepting k bytes.

type WriterPlan struct {
	FailAt     int  // fail once this many bytes were accepted; -1 never
	Short      bool // deliver the failure as a short write (n<len(p), err) when possible
	ReaderFrom bool // expose io.ReaderFrom
	Transient  bool // the failing Write fails once (accepting nothing); later calls succeed again
	// ErrValue is the error the device reports instead of ErrInjected: real devices fail
	// with values that mean something else elsewhere (io.EOF from a pipe whose reader
	// closed with it, io.ErrShortWrite, io.ErrClosedPipe, io.ErrUnexpectedEOF)
	ErrValue error
	// Capacity: the device is a fixed-size buffer of FailAt bytes: a Write that does not fit
	// entirely is refused (nothing taken), a later, smaller Write that still fits is accepted
	Capacity bool
	// Chunk > 0: a healthy device that takes at most Chunk bytes per call; a larger Write
	// is cut short and reported as (Chunk, io.ErrShortWrite) - the legal way to say so -
	// and the rest is taken if it is offered again (a rate limiter, a non-blocking transport)
	Chunk int
}

// SimWriter records everything it accepts.
type SimWriter struct {
	c              *Ctx
	name           string
	plan           WriterPlan
	Accepted       []byte
	Calls          int
	Bounds         []int // cumulative accepted length after each successful call (capped)
	Failed         bool
	CallsAfterFail int
	UsedReadFrom   bool
	FailedOnce     bool   // a transient failure was delivered
	Chunked        int    // Chunk mode: writes cut short
	CallsAfterChunk int   // Chunk mode: calls after the first write that was cut short
	Refused        int    // Capacity mode: writes refused because they did not fit
	AcceptedAfterRefusal int // Capacity mode: bytes taken after the first refusal
	OnCall         func() // scheduler yield hook
}

func (c *Ctx) NewWriter(name string, plan WriterPlan) io.Writer {
	w := &SimWriter{c: c, name: name, plan: plan}
	if plan.ReaderFrom {
		return &simWriterRF{w}
	}
	return w
}

// Unwrap returns the SimWriter behind an io.Writer made by NewWriter.
func Unwrap(w io.Writer) *SimWriter {
	switch v := w.(type) {
	case *SimWriter:
		return v
	case *simWriterRF:
		return v.SimWriter
	}
	return nil
}

func (w *SimWriter) Write(p []byte) (int, error) {
	w.Calls++
	if w.OnCall != nil {
		w.OnCall()
	}
	if w.Failed {
		w.CallsAfterFail++
		return 0, w.errValue()
	}
	if len(p) == 0 {
		return 0, nil // zero-length writes succeed even on a full device
	}
	if w.Chunked > 0 {
		w.CallsAfterChunk++
	}
	if w.plan.Chunk > 0 && len(p) > w.plan.Chunk {
		w.Chunked++
		w.c.Fault("write-cut-short-by-a-healthy-device")
		w.Accepted = append(w.Accepted, p[:w.plan.Chunk]...)
		return w.plan.Chunk, io.ErrShortWrite
	}
	if w.plan.Capacity && w.plan.FailAt >= 0 {
		if len(w.Accepted)+len(p) > w.plan.FailAt {
			w.Refused++
			w.c.Fault("write-refused-does-not-fit")
			return 0, w.errValue()
		}
		if w.Refused > 0 {
			w.AcceptedAfterRefusal += len(p)
		}
		w.Accepted = append(w.Accepted, p...)
		return len(p), nil
	}
	if w.plan.Transient && w.FailedOnce {
		w.CallsAfterFail++
		w.Accepted = append(w.Accepted, p...)
		return len(p), nil
	}
	if w.plan.FailAt >= 0 && len(w.Accepted)+len(p) > w.plan.FailAt {
		if w.plan.Transient {
			w.FailedOnce = true
			if room := w.plan.FailAt - len(w.Accepted); w.plan.Short && room > 0 {
				// a deadline firing in mid-write: part of the data was taken, the error says
				// "temporary", and the device works again afterwards
				w.Accepted = append(w.Accepted, p[:room]...)
				w.c.Fault("write-short-transient")
				return room, ErrInjectedTransient
			}
			w.c.Fault("write-error-transient")
			return 0, ErrInjectedTransient
		}
		room := w.plan.FailAt - len(w.Accepted)
		w.Failed = true
		if w.plan.Short && room > 0 {
			w.Accepted = append(w.Accepted, p[:room]...)
			w.c.Fault("write-short")
			return room, w.errValue()
		}
		if w.plan.Short {
			w.c.Fault("write-short(0)")
		} else {
			w.c.Fault("write-error")
		}
		// Non-short mode: a failing Write accepts nothing of this call; the
		// device is "full" at FailAt only if FailAt lands on a call boundary,
		// otherwise it fails at the last boundary before it.
		return 0, w.errValue()
	}
	w.Accepted = append(w.Accepted, p...)
	if len(w.Bounds) < 64 {
		w.Bounds = append(w.Bounds, len(w.Accepted))
	}
	return len(p), nil
}

func (w *SimWriter) errValue() error {
	if w.plan.ErrValue != nil {
		w.c.Fault("write-error-with-a-sentinel-value")
		return w.plan.ErrValue
	}
	return ErrInjected
}

type simWriterRF struct{ *SimWriter }

// ReadFrom makes io.Copy take the ReaderFrom path; it pulls from src with a
// 37-byte buffer so that several Write calls result.
func (w *simWriterRF) ReadFrom(src io.Reader) (int64, error) {
	w.UsedReadFrom = true
	w.c.Probe("writer: ReaderFrom path taken")
	var total int64
	buf := make([]byte, 37)
	for {
		n, rerr := src.Read(buf)
		if n > 0 {
			m, werr := w.SimWriter.Write(buf[:n])
			total += int64(m)
			if werr != nil {
				return total, werr
			}
		}
		if rerr == io.EOF {
			return total, nil
		}
		if rerr != nil {
			return total, rerr
		}
	}
}

// ---- a real file on a full disk -------------------------------------------------

var ignoreXFSZ sync.Once

// WithQuotaFile runs fn with a real *os.File as destination while the process's
// file-size limit (RLIMIT_FSIZE) is quota bytes: the kernel accepts exactly
// quota bytes into the file (a short write at the boundary) and fails every
// write beyond with EFBIG - a full disk at an exact, replayable byte position,
// for code that treats *os.File destinations specially. It returns what the
// file holds afterwards. quota < 0 means no limit. The limit is process-wide,
// so nothing else may write files while fn runs (workers are single-threaded
// at this level; statistics and fail files are written outside).
func (c *Ctx) WithQuotaFile(quota int, fn func(f *os.File)) (accepted []byte, err error) {
	ignoreXFSZ.Do(func() { signal.Ignore(syscall.SIGXFSZ) })
	f, err := os.CreateTemp(".", "quota-*")
	if err != nil {
		return nil, err
	}
	defer os.Remove(f.Name())
	defer f.Close()
	var old syscall.Rlimit
	if quota >= 0 {
		if err := syscall.Getrlimit(syscall.RLIMIT_FSIZE, &old); err != nil {
			return nil, err
		}
		if err := syscall.Setrlimit(syscall.RLIMIT_FSIZE, &syscall.Rlimit{Cur: uint64(quota), Max: old.Max}); err != nil {
			return nil, err
		}
		c.Fault("real-file-size-quota")
	}
	func() {
		defer func() {
			if quota >= 0 {
				syscall.Setrlimit(syscall.RLIMIT_FSIZE, &old)
			}
		}()
		fn(f)
	}()
	accepted, err = os.ReadFile(f.Name())
	return accepted, err
}

// ---- what the consumer's reader looks like ----------------------------------------

type onlyReader struct{ r io.Reader }

func (o onlyReader) Read(p []byte) (int, error) { return o.r.Read(p) }

// WrapSource draws the Go type behind which a consumer sees the simulated
// stream: the SimReader itself (Read and Seek), a value offering nothing but
// Read, or a bufio.Reader of a drawn size (ReadByte, WriteTo, Peek: the
// interfaces for which libraries keep fast paths). buffered reports that the
// wrapper may take more from the stream than its consumer asked for.
func (c *Ctx) WrapSource(label string, sr *SimReader) (r io.Reader, buffered bool) {
	kind := c.Pick(label+".sourceType", 5)
	if c.Chance(label+".fileSource", 1, 40) { // (real files and pipes are slow: kept rare)
		kind = 5 + c.Pick(label+".fileSourceKind", 2)
	}
	switch kind {
	case 4:
		// an io.SectionReader positioned behind a prefix: a Seeker that has no Len method
		if sr.plan.ErrAt >= 0 || sr.pos != 0 {
			return sr, false
		}
		prefix := c.Bytes(label+".sectionPrefix", 1, 64)
		all := append(append([]byte(nil), prefix...), sr.data...)
		s := io.NewSectionReader(bytes.NewReader(all), 0, int64(len(all)))
		s.Seek(int64(len(prefix)), io.SeekStart)
		c.Probe("source is an io.SectionReader positioned behind a prefix")
		return s, false
	case 6:
		// the read end of a pipe (an *os.File that is no regular file: size 0, no seeking),
		// fed by a writer that delivers the whole stream and closes
		if sr.plan.ErrAt >= 0 || sr.pos != 0 || len(sr.data) > 1<<20 {
			return sr, false
		}
		pr, pw, err := os.Pipe()
		if err != nil {
			return sr, false
		}
		data := sr.data
		go func() { pw.Write(data); pw.Close() }()
		c.Cleanup(func() { pr.Close() })
		c.Probe("source is the read end of a pipe")
		return pr, false
	case 5:
		// a real *os.File positioned behind other data in the same file (an artifact stored
		// inside a container): only for fault-free delivery plans, whose faults a real file
		// cannot reproduce
		if sr.plan.ErrAt >= 0 || sr.pos != 0 {
			return sr, false
		}
		f, err := os.CreateTemp(".", "src-*")
		if err != nil {
			return sr, false
		}
		c.Cleanup(func() { f.Close(); os.Remove(f.Name()) })
		prefix := c.Bytes(label+".filePrefix", 0, 64)
		f.Write(prefix)
		f.Write(sr.data)
		if _, err := f.Seek(int64(len(prefix)), io.SeekStart); err != nil {
			return sr, false
		}
		c.Probe("source is an *os.File positioned behind a prefix")
		return f, false
	case 0:
		return onlyReader{sr}, false
	case 1:
		c.Probe("source is a bufio.Reader")
		return bufio.NewReaderSize(sr, c.PickInt(label+".bufio", 16, 17, 64, 4096)), true
	default:
		return sr, false
	}
}
