package core

import (
	"bufio"
	"encoding/binary"
	"encoding/json"
	"fmt"
	"os"
	"runtime"
	"sort"
	"strings"
	"sync"
	"testing"
	"time"
)

// Global is the per-process accumulator. One worker process = one Global.
type Global struct {
	mu         sync.Mutex
	Runs       int64
	RunsFault  int64 // runs in which at least one fault fired
	FaultKinds map[string]int64
	Probes     map[string]int64
	Known      map[string]int64 // "prop fp" -> times seen
	Violations map[string]int64
	distinct   map[uint64]struct{}
	distinctNT map[uint64]struct{}
	Samples    []Sample
	sampleSigs map[string]bool
	LogDigest  uint64 // order-sensitive fold of all run log hashes
	SimTimeS   int64
	GuardCalls map[string]int64
	MaxAlloc   map[string]uint64
	known      map[string]bool
	runFile    *os.File
	curRun     int64
	start      time.Time
	Exhaustive map[string]int64 // name -> number of completely enumerated sub-spaces
	Outcomes   map[string]int64 // "config outcome" -> runs
}

// Sample is one run written out for the evidence file.
type Sample struct {
	Config    string   `json:"config"`
	Signature string   `json:"signature"`
	Events    []string `json:"events"`
}

// G is the process-wide accumulator.
var G = &Global{
	FaultKinds: map[string]int64{},
	Probes:     map[string]int64{},
	Known:      map[string]int64{},
	Violations: map[string]int64{},
	distinct:   map[uint64]struct{}{},
	distinctNT: map[uint64]struct{}{},
	sampleSigs: map[string]bool{},
	GuardCalls: map[string]int64{},
	MaxAlloc:   map[string]uint64{},
	known:      map[string]bool{},
	Exhaustive: map[string]int64{},
	Outcomes:   map[string]int64{},
}

func (g *Global) beginRun(c *Ctx) {
	g.mu.Lock()
	g.curRun++
	n := g.curRun
	f := g.runFile
	g.mu.Unlock()
	if f != nil {
		var b [8]byte
		binary.LittleEndian.PutUint64(b[:], uint64(n))
		f.WriteAt(b[:], 0)
	}
}

var dumpLog *os.File

func (g *Global) endRun(c *Ctx) {
	if p := os.Getenv("VERIF_DUMPLOG"); p != "" { // debugging aid for the determinism self-test
		if dumpLog == nil {
			dumpLog, _ = os.Create(p)
		}
		fmt.Fprintf(dumpLog, "== run %d\n%s\n", g.curRun, strings.Join(c.events, "\n"))
	}
	h, s := c.sigHash()
	lh := c.logHash()
	g.mu.Lock()
	defer g.mu.Unlock()
	g.Runs++
	oc := c.outcome
	if i := strings.IndexByte(oc, '/'); i > 0 && len(g.Outcomes) > 400 {
		oc = oc[:i]
	}
	g.Outcomes[c.Config+" "+oc]++
	g.SimTimeS += c.simTimeS
	g.LogDigest = g.LogDigest*1099511628211 ^ lh
	g.distinct[h] = struct{}{}
	nontrivial := c.nfault > 0 || strings.HasPrefix(c.outcome, "nt:")
	if c.nfault > 0 {
		g.RunsFault++
	}
	if nontrivial {
		g.distinctNT[h] = struct{}{}
	}
	if len(g.Samples) < 6 && nontrivial && !g.sampleSigs[s] && len(c.events) > 0 {
		g.sampleSigs[s] = true
		ev := c.events
		if len(ev) > 40 {
			ev = append(append([]string{}, ev[:30]...), fmt.Sprintf("… %d more events", len(ev)-30))
		}
		g.Samples = append(g.Samples, Sample{Config: c.Config, Signature: s, Events: ev})
	}
}

func (g *Global) faultFired(kind string) {
	g.mu.Lock()
	g.FaultKinds[kind]++
	g.mu.Unlock()
}

func (g *Global) probe(name string) {
	g.mu.Lock()
	g.Probes[name]++
	g.mu.Unlock()
}

// ExhaustiveDone records that a finite sub-space was enumerated completely.
func ExhaustiveDone(name string, n int64) {
	G.mu.Lock()
	G.Exhaustive[name] += n
	G.mu.Unlock()
}

func (g *Global) isKnown(prop, fp string) bool { return g.known[prop+" "+fp] }

func (g *Global) knownSeen(prop, fp string) {
	g.mu.Lock()
	g.Known[prop+" "+fp]++
	g.mu.Unlock()
}

func (g *Global) violation(prop, fp string) {
	g.mu.Lock()
	g.Violations[prop+" "+fp]++
	g.mu.Unlock()
}

// loadKnown reads `known: property=<ID> fingerprint=<fp> …` lines.
func (g *Global) loadKnown(path string) {
	f, err := os.Open(path)
	if err != nil {
		return
	}
	defer f.Close()
	sc := bufio.NewScanner(f)
	for sc.Scan() {
		line := strings.TrimSpace(sc.Text())
		if !strings.HasPrefix(line, "known:") {
			continue
		}
		var prop, fp string
		for _, w := range strings.Fields(line) {
			if strings.HasPrefix(w, "property=") {
				prop = strings.TrimPrefix(w, "property=")
			}
			if strings.HasPrefix(w, "fingerprint=") {
				fp = strings.TrimPrefix(w, "fingerprint=")
			}
		}
		if prop != "" && fp != "" {
			g.known[prop+" "+fp] = true
		}
	}
}

type statsOut struct {
	Prop       string            `json:"prop"`
	Runs       int64             `json:"runs"`
	RunsFault  int64             `json:"runs_with_fault"`
	FaultKinds map[string]int64  `json:"fault_kinds"`
	Probes     map[string]int64  `json:"probes"`
	Known      map[string]int64  `json:"known_findings_seen"`
	Violations map[string]int64  `json:"violations"`
	Distinct   []string          `json:"distinct"`
	DistinctNT []string          `json:"distinct_nontrivial"`
	Samples    []Sample          `json:"samples"`
	LogDigest  string            `json:"log_digest"`
	SimTimeS   int64             `json:"sim_time_s"`
	GuardCalls map[string]int64  `json:"guard_calls"`
	MaxAlloc   map[string]uint64 `json:"max_alloc_bytes"`
	Exhaustive map[string]int64  `json:"exhaustive_subspaces"`
	Outcomes   map[string]int64  `json:"outcomes"`
	WallS      float64           `json:"wall_s"`
	GoVersion  string            `json:"go_version"`
	GOMAXPROCS int               `json:"gomaxprocs"`
	ExitCode   int               `json:"exit_code"`
}

func hexList(m map[uint64]struct{}) []string {
	l := make([]string, 0, len(m))
	for k := range m {
		l = append(l, fmt.Sprintf("%016x", k))
	}
	sort.Strings(l)
	return l
}

func (g *Global) write(path string, code int) {
	g.mu.Lock()
	defer g.mu.Unlock()
	o := statsOut{
		Prop: activeProp, Runs: g.Runs, RunsFault: g.RunsFault, FaultKinds: g.FaultKinds, Probes: g.Probes,
		Known: g.Known, Violations: g.Violations, Distinct: hexList(g.distinct), DistinctNT: hexList(g.distinctNT),
		Samples: g.Samples, LogDigest: fmt.Sprintf("%016x", g.LogDigest), SimTimeS: g.SimTimeS,
		GuardCalls: g.GuardCalls, MaxAlloc: g.MaxAlloc, Exhaustive: g.Exhaustive, Outcomes: g.Outcomes,
		WallS: time.Since(g.start).Seconds(), GoVersion: runtime.Version(), GOMAXPROCS: runtime.GOMAXPROCS(0), ExitCode: code,
	}
	b, _ := json.Marshal(o)
	os.WriteFile(path, b, 0644)
}

// Main is the TestMain body of every world: loads known findings, arms the
// hang watchdog, runs the tests and writes the statistics file.
func Main(m *testing.M) {
	G.start = time.Now()
	if p := os.Getenv("VERIF_KNOWN"); p != "" {
		G.loadKnown(p)
	}
	if p := os.Getenv("VERIF_RUNFILE"); p != "" {
		if f, err := os.OpenFile(p, os.O_CREATE|os.O_RDWR, 0644); err == nil {
			G.runFile = f
		}
	}
	startHangWatch()
	code := m.Run()
	if p := os.Getenv("VERIF_STATS"); p != "" {
		G.write(p, code)
	}
	os.Exit(code)
}
