package core

import (
	"encoding/binary"
	"fmt"
)

// Field locates a length / offset / count field inside a serialized artifact,
// as found by an independent reference parser. Kind "be" = fixed-width
// big-endian integer of Width bytes; kind "cbor" = a CBOR head whose argument
// occupies Width bytes after the initial byte at Off (Width 0 = immediate).
type Field struct {
	Name  string
	Off   int
	Width int
	Kind  string
	Value uint64
}

// Storage fault kinds applied to a blob "at rest".
var BlobFaultKinds = []string{"bitflip", "byte-overwrite", "zero-block", "truncate", "dup-block", "garbage-append", "insert-byte", "delete-byte", "swap-blocks"}

// CorruptBlob applies one drawn storage fault to a copy of data.
func (c *Ctx) CorruptBlob(label string, data []byte, kinds []string) []byte {
	out := append([]byte(nil), data...)
	if len(kinds) == 0 {
		kinds = BlobFaultKinds
	}
	kind := kinds[c.Pick(label+".kind", len(kinds))]
	n := len(out)
	if n == 0 && kind != "garbage-append" && kind != "insert-byte" {
		kind = "garbage-append"
	}
	switch kind {
	case "bitflip":
		off := c.Int(label+".off", 0, n-1)
		bit := c.Int(label+".bit", 0, 7)
		out[off] ^= 1 << uint(bit)
		c.Fault("storage-bitflip")
		c.Event("bitflip off=%d bit=%d", off, bit)
	case "byte-overwrite":
		off := c.Int(label+".off", 0, n-1)
		v := byte(c.PickInt(label+".val", 0x00, 0xff, 0x7f, 0x80, 0x1f, 0x5f, 0x9f, 0xbf, 0x18, 0x19, 0x1a, 0x1b, 0x1c, 0x40, 0x60, 0x80, 0xa0))
		if out[off] == v {
			v ^= 0x55
		}
		out[off] = v
		c.Fault("storage-byte-overwrite")
		c.Event("byte-overwrite off=%d val=%#x", off, v)
	case "zero-block":
		off := c.Int(label+".off", 0, n-1)
		l := c.Int(label+".len", 1, min(n-off, 64))
		for i := off; i < off+l; i++ {
			out[i] = 0
		}
		c.Fault("storage-zero-block")
		c.Event("zero-block off=%d len=%d", off, l)
	case "truncate":
		off := c.Int(label+".off", 0, n-1)
		out = out[:off]
		c.Fault("storage-truncate")
		c.Event("truncate at=%d of %d", off, n)
	case "dup-block":
		off := c.Int(label+".off", 0, n-1)
		l := c.Int(label+".len", 1, min(n-off, 64))
		blk := append([]byte(nil), out[off:off+l]...)
		out = append(out[:off+l], append(blk, out[off+l:]...)...)
		c.Fault("storage-dup-block")
		c.Event("dup-block off=%d len=%d", off, l)
	case "garbage-append":
		g := c.Bytes(label+".garbage", 1, 40)
		out = append(out, g...)
		c.Fault("storage-garbage-append")
		c.Event("garbage-append len=%d", len(g))
	case "insert-byte":
		off := c.Int(label+".off", 0, n)
		v := byte(c.Int(label+".val", 0, 255))
		out = append(out[:off], append([]byte{v}, out[off:]...)...)
		c.Fault("storage-insert-byte")
		c.Event("insert-byte off=%d val=%#x", off, v)
	case "delete-byte":
		off := c.Int(label+".off", 0, n-1)
		out = append(out[:off], out[off+1:]...)
		c.Fault("storage-delete-byte")
		c.Event("delete-byte off=%d", off)
	case "swap-blocks":
		if n < 4 {
			out[0] ^= 0xff
			c.Fault("storage-bitflip")
			break
		}
		l := c.Int(label+".len", 1, min(n/2, 48))
		a := c.Int(label+".a", 0, n-2*l)
		b := c.Int(label+".b", a+l, n-l)
		for i := 0; i < l; i++ {
			out[a+i], out[b+i] = out[b+i], out[a+i]
		}
		c.Fault("storage-swap-blocks")
		c.Event("swap-blocks a=%d b=%d len=%d", a, b, l)
	}
	return out
}

// BoundaryValues are the replacement values of the metadata-corruption fault
// for a field whose honest value is v inside a file of the given size.
func BoundaryValues(v uint64, fileSize int) []uint64 {
	return []uint64{0, v - 1, v + 1, uint64(fileSize), uint64(fileSize) + 1, 1 << 32, 1<<32 - 1, 1 << 63, 1<<63 - 1, ^uint64(0), ^uint64(0) - 7, v + 0x100, v ^ 1<<31, uint64(fileSize) - v, 23, 24, 255, 256, 65535, 65536}
}

// CorruptField overwrites one located metadata field with a boundary value,
// keeping the field's width (the value is reduced modulo the width for fixed
// "be" fields; a CBOR head keeps its width too — possibly becoming
// non-shortest, which a strict parser may also reject).
func (c *Ctx) CorruptField(label string, data []byte, fields []Field) ([]byte, Field, uint64) {
	out := append([]byte(nil), data...)
	f := fields[c.Pick(label+".field", len(fields))]
	vals := BoundaryValues(f.Value, len(data))
	nv := vals[c.Pick(label+".val", len(vals))]
	switch f.Kind {
	case "be":
		var b [8]byte
		binary.BigEndian.PutUint64(b[:], nv)
		copy(out[f.Off:f.Off+f.Width], b[8-f.Width:])
		if f.Width < 8 {
			nv &= 1<<(8*uint(f.Width)) - 1
		}
	case "cbor":
		if f.Width == 0 {
			nv %= 24
			out[f.Off] = out[f.Off]&0xe0 | byte(nv)
		} else {
			var b [8]byte
			binary.BigEndian.PutUint64(b[:], nv)
			copy(out[f.Off+1:f.Off+1+f.Width], b[8-f.Width:])
			if f.Width < 8 {
				nv &= 1<<(8*uint(f.Width)) - 1
			}
		}
	}
	c.Fault("metadata-corruption")
	c.Event("metadata %s off=%d width=%d kind=%s %d -> %d", f.Name, f.Off, f.Width, f.Kind, f.Value, nv)
	if nv >= 1<<63 {
		c.Probe("metadata: length field >= 2^63")
	}
	return out, f, nv
}

// WidenCborField rewrites a CBOR head in place to an 8-byte argument carrying
// value nv (so that values up to 2^64-1 can be injected into a field that was
// encoded short). The bytes after the head are kept; the file grows.
func WidenCborField(data []byte, f Field, nv uint64) []byte {
	out := append([]byte(nil), data[:f.Off]...)
	out = append(out, data[f.Off]&0xe0|27)
	var b [8]byte
	binary.BigEndian.PutUint64(b[:], nv)
	out = append(out, b[:]...)
	out = append(out, data[f.Off+1+f.Width:]...)
	return out
}

func min(a, b int) int {
	if a < b {
		return a
	}
	return b
}

// Hex abbreviates a byte string for the event log.
func Hex(b []byte) string {
	if len(b) <= 24 {
		return fmt.Sprintf("%x", b)
	}
	return fmt.Sprintf("%x…(%d bytes)", b[:24], len(b))
}
