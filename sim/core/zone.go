package core

import (
	"time"
	_ "time/tzdata" // the zone database travels with the binary: no dependence on the host
)

var zoneNames = []string{"UTC", "America/New_York", "Australia/Lord_Howe", "Europe/London", "Asia/Kathmandu", "Pacific/Apia"}
var zones []*time.Location

func init() {
	for _, n := range zoneNames {
		if l, err := time.LoadLocation(n); err == nil {
			zones = append(zones, l)
		}
	}
}

// DSTTransitions are instants (UTC seconds) at which America/New_York changes its
// offset, for workloads that place a 7-day lifetime across one.
var DSTTransitions = []int64{1615705200, 1636264800, 1647154800, 1667714400, 1678604400}

// LocalZone draws the time zone the simulated process runs in (time.Local: part of
// the clock seam - what "now" looks like when broken into calendar fields) and
// returns the function that restores UTC. Absolute instants are unaffected; code
// that does calendar arithmetic on them is not.
func (c *Ctx) LocalZone(label string) func() {
	if len(zones) == 0 {
		return func() {}
	}
	z := zones[c.Pick(label+".zone", len(zones))]
	old := time.Local
	time.Local = z
	if z.String() != "UTC" {
		c.Fault("process-time-zone-with-dst")
	}
	return func() { time.Local = old }
}
