// World W-CBOR: a sender (reference encoder or the repository encoder) puts a
// sequence of CBOR items on a channel; the repository Decoder consumes it call
// by call. Properties C12 (clean, channel-faults) and C10 (watchdog).
package cbor

import (
	"bufio"
	"bytes"
	"fmt"
	"io"
	"testing"
	"unicode/utf8"

	"github.com/WICG/webpackage/go/verifhook"
	"pgregory.net/rapid"
	"verifsim/core"
	"verifsim/ref/refcbor"
)

func TestMain(m *testing.M) { core.Main(m) }

var boundaryVals = []uint64{0, 1, 22, 23, 24, 25, 254, 255, 256, 257, 65534, 65535, 65536, 65537, 1<<32 - 1, 1 << 32, 1<<32 + 1, 1<<63 - 1, 1 << 63, 1<<63 + 1, ^uint64(0) - 1, ^uint64(0)}

type sent struct {
	major    int
	val      uint64 // integer value / count
	data     []byte // string content
	off      int
	shortest bool
}

func drawValue(c *core.Ctx, label string) uint64 {
	if c.Bool(label + ".boundary") {
		return boundaryVals[c.Pick(label+".bv", len(boundaryVals))]
	}
	return c.U64(label+".v", 0, ^uint64(0))
}

func widthFor(c *core.Ctx, label string, v uint64) (int, bool) {
	min := 0
	switch {
	case v < 24:
		min = 0
	case v < 1<<8:
		min = 1
	case v < 1<<16:
		min = 2
	case v < 1<<32:
		min = 4
	default:
		min = 8
	}
	if !c.Chance(label+".wide", 1, 5) {
		return min, true
	}
	ws := []int{0, 1, 2, 4, 8}
	var cand []int
	for _, w := range ws {
		if w > min {
			cand = append(cand, w)
		}
	}
	if len(cand) == 0 {
		return min, true
	}
	c.Probe("non-shortest head sent")
	return cand[c.Pick(label+".w", len(cand))], false
}

func strLen(c *core.Ctx, label string) int {
	return c.PickInt(label, 0, 1, 5, 22, 23, 24, 25, 254, 255, 256, 257, 1000, 65535, 65536, 65537)
}

// buildStream lets the reference encoder emit a drawn sequence of items.
func buildStream(c *core.Ctx, maxItems int) ([]byte, []sent) {
	var out []byte
	var items []sent
	n := c.Int("items", 1, maxItems)
	for i := 0; i < n; i++ {
		it := sent{off: len(out), shortest: true}
		switch c.Pick("item.kind", 9) {
		case 8:
			// a tag head (major type 6) with a registered tag number, in any head width; the
			// item it wraps is simply the next item of the stream. No typed call may succeed here.
			it.major = 6
			it.val = c.PickU64("tag.number", 0, 1, 2, 3, 21, 24, 32, 55799, 55799, 55800, 1<<32+55799, 15309736)
			w, sh := widthFor(c, "tag", it.val)
			it.shortest = sh
			out = refcbor.AppendHeadSized(out, 6, it.val, w)
			c.Probe("tag head followed by an item")
		case 0, 1:
			it.major, it.val = 0, drawValue(c, "uint")
			w, sh := widthFor(c, "uint", it.val)
			it.shortest = sh
			out = refcbor.AppendHeadSized(out, 0, it.val, w)
		case 2:
			it.major = 2
			it.data = c.BytesN("bytes", strLen(c, "bytes.len"))
			w, sh := widthFor(c, "bytes", uint64(len(it.data)))
			it.shortest = sh
			out = append(refcbor.AppendHeadSized(out, 2, uint64(len(it.data)), w), it.data...)
		case 3:
			it.major = 3
			l := strLen(c, "text.len")
			b := make([]byte, l)
			pat := c.U64("text.pat", 0, ^uint64(0))
			core.FillPattern(b, pat)
			for j := range b {
				b[j] = 0x20 + b[j]%0x5f // printable ASCII
			}
			if l >= 4 && c.Chance("text.multibyte", 1, 2) {
				// two-, three- and four-byte sequences at their range limits, and U+FFFD itself
				mb := c.PickStr("text.mb", "\ufeff", "é", "\u07ff", "\u0800", "\ufffd", "\uffff", "\ud7ff", "\ue000", "\U00010000", "\U0010ffff", "\u00a0")
				at := c.Int("text.mbAt", 0, l-len(mb))
				if mb == "\ufeff" && c.Bool("text.bomFirst") {
					at = 0 // a byte-order mark is an ordinary code point of the string, also in first position
					c.Probe("text starting with U+FEFF")
				}
				copy(b[at:], mb)
				if mb == "\ufffd" {
					c.Probe("valid text containing U+FFFD sent")
				}
			}
			if l >= 1 && c.Chance("text.invalid", 1, 8) {
				b[c.Int("text.badAt", 0, l-1)] = byte(c.PickInt("text.bad", 0xff, 0xc0, 0x80, 0xfe, 0xed))
				c.Probe("invalid UTF-8 text sent")
			}
			it.data = b
			w, sh := widthFor(c, "text", uint64(l))
			it.shortest = sh
			out = append(refcbor.AppendHeadSized(out, 3, uint64(l), w), b...)
		case 4:
			it.major, it.val = 4, drawValue(c, "arr")
			w, sh := widthFor(c, "arr", it.val)
			it.shortest = sh
			out = refcbor.AppendHeadSized(out, 4, it.val, w)
		case 5:
			it.major, it.val = 5, drawValue(c, "map")
			w, sh := widthFor(c, "map", it.val)
			it.shortest = sh
			out = refcbor.AppendHeadSized(out, 5, it.val, w)
		case 6:
			it.major, it.val = 1, drawValue(c, "neg")
			out = refcbor.AppendHead(out, 1, it.val)
		default:
			// raw initial byte: any of the 256, including reserved/indefinite heads, tags, simple values
			ib := byte(c.Int("raw.ib", 0, 255))
			it.major = int(ib >> 5)
			out = append(out, ib)
			out = append(out, c.Bytes("raw.follow", 0, 9)...)
			it.shortest = false
			if ib&0x1f >= 28 {
				c.Probe("reserved/indefinite additional information sent")
			}
		}
		items = append(items, it)
	}
	return out, items
}

type callKind int

const (
	callUint callKind = iota
	callArray
	callMap
	callBytes
	callText
	callReadByte
	nCalls
)

var callNames = []string{"DecodeUint", "DecodeArrayHeader", "DecodeMapHeader", "DecodeByteString", "DecodeTextString", "ReadByte"}
var callMajor = []int{0, 4, 5, 2, 3, -1}

func matching(major int) callKind {
	switch major {
	case 0:
		return callUint
	case 4:
		return callArray
	case 5:
		return callMap
	case 2:
		return callBytes
	case 3:
		return callText
	}
	return callUint
}

type callResult struct {
	u   uint64
	b   []byte
	s   string
	err error
}

func doCall(d *verifhook.CborDecoder, k callKind) (r callResult) {
	switch k {
	case callUint:
		r.u, r.err = d.DecodeUint()
	case callArray:
		r.u, r.err = d.DecodeArrayHeader()
	case callMap:
		r.u, r.err = d.DecodeMapHeader()
	case callBytes:
		r.b, r.err = d.DecodeByteString()
	case callText:
		r.s, r.err = d.DecodeTextString()
	case callReadByte:
		var x byte
		x, r.err = d.ReadByte()
		r.u = uint64(x)
	}
	return
}

// judge applies the C12 oracle to one decode call made at offset pos of the
// stream the consumer can observe (eff), given what the call returned and how
// far the reader advanced.
func judge(c *core.Ctx, eff []byte, pos int, k callKind, r callResult, consumed int, cleanDelivery bool) {
	name := callNames[k]
	if k == callReadByte {
		if r.err == nil {
			if pos >= len(eff) || byte(r.u) != eff[pos] || consumed != pos+1 {
				c.Violation("readbyte", name, "ReadByte at %d returned %#x, consumed to %d (stream len %d)", pos, r.u, consumed, len(eff))
			}
		} else if pos < len(eff) && cleanDelivery {
			c.Violation("spurious-error", name, "ReadByte failed at %d of %d: %v", pos, len(eff), r.err)
		}
		return
	}
	major, ai, arg, hl, herr := refcbor.Head(eff, pos)
	isStr := k == callBytes || k == callText
	if r.err == nil {
		if herr != nil {
			c.Violation("accepted-malformed-head", name, "%s succeeded at offset %d where the reference finds: %v (initial byte %#x, ai=%d); returned %d/%q", name, pos, herr, at(eff, pos), ai, r.u, core.Hex(r.b))
		}
		if major != callMajor[k] {
			c.Violation("accepted-wrong-type", name, "%s succeeded on an item of major type %d at offset %d", name, major, pos)
		}
		if !isStr {
			if r.u != arg {
				c.Violation("wrong-value", name, "%s returned %d, RFC 8949 value is %d (offset %d)", name, r.u, arg, pos)
			}
			if consumed != pos+hl {
				c.Violation("wrong-consumption", name, "%s consumed %d bytes, the head is %d bytes (offset %d)", name, consumed-pos, hl, pos)
			}
			return
		}
		it, derr := refcbor.Decode(eff, pos)
		if derr != nil {
			c.Violation("accepted-incomplete-item", name, "%s succeeded at offset %d where the reference finds: %v (declared length %d, %d bytes remain); returned %d bytes", name, pos, derr, arg, len(eff)-pos-hl, len(r.b)+len(r.s))
		}
		got := r.b
		if k == callText {
			got = []byte(r.s)
			if !utf8.Valid(it.Bytes) {
				c.Violation("accepted-invalid-utf8", name, "text string with invalid UTF-8 accepted at offset %d", pos)
			}
		}
		if !bytes.Equal(got, it.Bytes) {
			c.Violation("wrong-value", name, "%s returned %s, item content is %s", name, core.Hex(got), core.Hex(it.Bytes))
		}
		if consumed != pos+it.Len {
			c.Violation("wrong-consumption", name, "%s consumed %d bytes, the item is %d bytes (offset %d)", name, consumed-pos, it.Len, pos)
		}
		return
	}
	// the call failed: it must not fail on what the encoder can produce when delivery was clean
	if !cleanDelivery || herr != nil || major != callMajor[k] {
		return
	}
	if hlShortest(arg, hl) {
		if !isStr {
			c.Violation("spurious-error", name, "%s failed on a well-formed shortest-form head at offset %d (value %d): %v", name, pos, arg, r.err)
		}
		it, derr := refcbor.Decode(eff, pos)
		if derr == nil && (k == callBytes || utf8.Valid(it.Bytes)) {
			c.Violation("spurious-error", name, "%s failed on a complete well-formed item at offset %d (length %d): %v", name, pos, arg, r.err)
		}
	}
}

func hlShortest(arg uint64, hl int) bool {
	return refcbor.Item{Arg: arg, HeadLen: hl}.ShortestHead()
}

func at(b []byte, i int) byte {
	if i < len(b) {
		return b[i]
	}
	return 0
}

func effective(stream []byte, plan core.ReaderPlan) []byte {
	if plan.ErrAt >= 0 && plan.ErrKind != 1 && plan.ErrAt < len(stream) {
		return stream[:plan.ErrAt]
	}
	return stream
}

// consume drives the decoder over the stream with drawn calls.
// source is what the decoder reads from: the simulated channel, or one of the
// in-memory reader types the repository itself decodes from (sections of a
// bundle are bytes.Buffers, header blocks bytes.Readers).
type source struct {
	r        io.Reader
	consumed func() int
}

type onlyRead struct{ r io.Reader }

func (o onlyRead) Read(p []byte) (int, error) { return o.r.Read(p) }

func drawSource(c *core.Ctx, stream []byte, plan core.ReaderPlan) (source, core.ReaderPlan) {
	switch c.Pick("source.kind", 6) {
	case 2:
		// a bufio.Reader (whose Peek / Discard invite zero-copy shortcuts) over the whole stream
		b := bytes.NewReader(stream)
		br := bufio.NewReaderSize(onlyRead{b}, c.PickInt("source.bufio", 16, 64, 4096))
		c.Sig("src:bufio.Reader")
		return source{br, func() int { return len(stream) - b.Len() - br.Buffered() }}, core.ReaderPlan{ErrAt: -1}
	case 0:
		b := bytes.NewBuffer(append([]byte(nil), stream...))
		c.Sig("src:bytes.Buffer")
		return source{b, func() int { return len(stream) - b.Len() }}, core.ReaderPlan{ErrAt: -1}
	case 1:
		b := bytes.NewReader(stream)
		c.Sig("src:bytes.Reader")
		return source{b, func() int { return len(stream) - b.Len() }}, core.ReaderPlan{ErrAt: -1}
	}
	sr := c.NewReader("chan", stream, plan)
	return source{sr, sr.Consumed}, plan
}

func consume(c *core.Ctx, stream []byte, plan core.ReaderPlan, maxCalls int) {
	src, plan := drawSource(c, stream, plan)
	sr := srcCounter{src}
	d := verifhook.NewCborDecoder(src.r)
	consumeLoop(c, d, sr, stream, plan, maxCalls)
}

// consumeLoop drives decoder d (reading the given stream through sr) with drawn calls.
func consumeLoop(c *core.Ctx, d *verifhook.CborDecoder, sr srcCounter, stream []byte, plan core.ReaderPlan, maxCalls int) {
	eff := effective(stream, plan)
	clean := plan.ErrAt < 0
	// history: byte strings handed out earlier must stay intact while decoding continues
	type kept struct{ got, want []byte }
	var earlier []kept
	defer func() {
		if c.Oracle("C12") {
			// the caller extends the byte strings it was given (append is legal on any slice):
			// that must not reach into other results
			for _, k := range earlier {
				_ = append(k.got, 0xee, 0xee, 0xee, 0xee, 0xee, 0xee, 0xee, 0xee)
			}
			for i, k := range earlier {
				if !bytes.Equal(k.got, k.want) {
					c.Violation("result-changed-later", "DecodeByteString", "the byte string returned by call %d was modified by later calls", i)
				}
			}
		}
	}()
	for i := 0; i < maxCalls; i++ {
		pos := sr.Consumed()
		major, _, _, hl, herr := refcbor.Head(eff, pos)
		k := matching(major)
		if major == 6 && herr == nil {
			// at a tag: ask for the type of the item the tag wraps (still a wrong-type call)
			if m2, _, _, _, e2 := refcbor.Head(eff, pos+hl); e2 == nil {
				k = matching(m2)
			}
		}
		if c.Chance("call.other", 1, 6) {
			k = callKind(c.Pick("call.kind", int(nCalls)))
		}
		var r callResult
		pi, alloc := c.GuardAlloc("cbor."+callNames[k], func() { r = doCall(d, k) })
		if c.Oracle("C10", "C12") {
			c.CheckTotal("cbor."+callNames[k], len(stream), pi, alloc)
		}
		if pi != nil {
			return
		}
		c.Event("%s@%d -> err=%v u=%d len=%d", callNames[k], pos, r.err != nil, r.u, len(r.b)+len(r.s))
		if c.Oracle("C12") {
			// transient error: the bytes stay deliverable, the reference sees the whole stream
			judge(c, eff, pos, k, r, sr.Consumed(), clean)
			if r.err == nil && plan.ErrAt >= 0 && plan.ErrKind != 1 && sr.Consumed() > plan.ErrAt {
				c.Violation("read-error-swallowed", callNames[k], "consumed past the injected error")
			}
		}
		if r.err == nil && k == callBytes {
			earlier = append(earlier, kept{r.b, append([]byte(nil), r.b...)})
		}
		if r.err != nil {
			c.Outcome("error@" + callNames[k])
			return
		}
		if pos >= len(eff) {
			return
		}
	}
	c.Outcome("nt:all-decoded")
}

type srcCounter struct{ s source }

func (s srcCounter) Consumed() int { return s.s.consumed() }

func TestClean(t *testing.T) {
	rapid.Check(t, func(t *rapid.T) {
		core.Run(t, "cbor/clean", func(c *core.Ctx) {
			stream, items := buildStream(c, 6)
			plan := c.DrawReaderPlan("chan", len(stream), false)
			c.Event("stream %d bytes, %d items, plan %v", len(stream), len(items), plan)
			c.Sig("m%d/i%d", plan.Mode, len(items))
			for _, it := range items {
				c.Sig("t%d", it.major)
			}
			consume(c, stream, plan, 12)
		})
	})
}

func TestChannelFaults(t *testing.T) {
	rapid.Check(t, func(t *rapid.T) {
		core.Run(t, "cbor/channel-faults", func(c *core.Ctx) {
			stream, items := buildStream(c, 5)
			n := c.Int("nfaults", 0, 2)
			for i := 0; i < n; i++ {
				if c.Bool("fault.inHead") && len(items) > 0 {
					// bit flip inside a head: reaches reserved/indefinite additional information,
					// non-shortest heads and lengths >= 2^63 (top length byte)
					it := items[c.Pick("fault.item", len(items))]
					if it.off < len(stream) {
						off := it.off + c.Int("fault.headByte", 0, 1)
						if off < len(stream) {
							stream = append([]byte(nil), stream...)
							stream[off] ^= 1 << uint(c.Int("fault.bit", 0, 7))
							c.Fault("chan-bitflip-head")
							c.Event("bitflip in head at %d", off)
						}
					}
				} else {
					stream = c.CorruptBlob("fault.blob", stream, nil)
				}
			}
			plan := c.DrawReaderPlan("chan", len(stream), true)
			c.Event("stream %d bytes, plan %v", len(stream), plan)
			consume(c, stream, plan, 12)
		})
	})
}

// TestRoundTrip: the repository encoder is the sender; values decoded must be
// the values encoded (history check), under clean delivery.
func TestRoundTrip(t *testing.T) {
	rapid.Check(t, func(t *rapid.T) {
		core.Run(t, "cbor/roundtrip", func(c *core.Ctx) {
			w := c.NewWriter("dst", core.WriterPlan{FailAt: -1, ReaderFrom: c.Bool("dst.readerFrom")})
			e := verifhook.NewCborEncoder(w)
			type op struct {
				k callKind
				u uint64
				b []byte
			}
			var ops []op
			n := c.Int("ops", 1, 8)
			for i := 0; i < n; i++ {
				o := op{k: callKind(c.Pick("op.kind", 5))}
				var err error
				switch o.k {
				case callUint:
					o.u = drawValue(c, "uint")
					err = e.EncodeUint(o.u)
				case callArray:
					o.u = uint64(c.PickInt("arr.n", 0, 1, 23, 24, 255, 256, 65535, 65536, 1<<31-1))
					err = e.EncodeArrayHeader(int(o.u))
				case callMap:
					// a map header is only reachable through EncodeMap; encode k uint->uint entries
					k := c.PickInt("map.n", 0, 1, 2, 23, 24, 30)
					o.u = uint64(k)
					var mes []*verifhook.CborMapEntryEncoder
					for _, j := range c.Perm("map.perm", k) {
						jj := uint64(j) * 11
						mes = append(mes, verifhook.GenerateCborMapEntry(func(ke, ve *verifhook.CborEncoder) {
							ke.EncodeUint(jj)
							ve.EncodeUint(jj + 1)
						}))
					}
					err = e.EncodeMap(mes)
				case callBytes:
					o.b = c.BytesN("bytes", strLen(c, "bytes.len"))
					err = e.EncodeByteString(o.b)
				case callText:
					l := strLen(c, "text.len")
					b := make([]byte, l)
					core.FillPattern(b, c.U64("text.pat", 0, ^uint64(0)))
					for j := range b {
						b[j] = 0x20 + b[j]%0x5f
					}
					o.b = b
					err = e.EncodeTextString(string(b))
				}
				if err != nil {
					c.Violation("encode-error", callNames[o.k], "encoder failed on a healthy writer: %v", err)
				}
				ops = append(ops, o)
			}
			stream := core.Unwrap(w).Accepted
			plan := c.DrawReaderPlan("chan", len(stream), false)
			sr := c.NewReader("chan", stream, plan)
			d := verifhook.NewCborDecoder(sr)
			for _, o := range ops {
				pos := sr.Consumed()
				r := doCall(d, o.k)
				if c.Oracle("C12") {
					judge(c, stream, pos, o.k, r, sr.Consumed(), true)
					if r.err != nil {
						c.Violation("roundtrip", callNames[o.k], "decoder rejected encoder output at %d: %v", pos, r.err)
					}
					switch o.k {
					case callUint, callArray, callMap:
						if r.u != o.u {
							c.Violation("roundtrip", callNames[o.k], "decoded %d, encoded %d", r.u, o.u)
						}
					case callBytes:
						if !bytes.Equal(r.b, o.b) {
							c.Violation("roundtrip", callNames[o.k], "decoded bytes differ")
						}
					case callText:
						if r.s != string(o.b) {
							c.Violation("roundtrip", callNames[o.k], "decoded text differs")
						}
					}
				}
				if o.k == callMap { // skip the entries
					for j := uint64(0); j < 2*o.u; j++ {
						v, err := d.DecodeUint()
						if c.Oracle("C12") && (err != nil || (j%2 == 0 && v != (j/2)*11) || (j%2 == 1 && v != (j/2)*11+1)) {
							c.Violation("roundtrip", "EncodeMap", "map entry %d decoded as %d err=%v (entries must come back sorted by key)", j, v, err)
						}
					}
				}
			}
			if sr.Consumed() != len(stream) && c.Oracle("C12") {
				c.Violation("roundtrip", "stream", "decoder consumed %d of %d bytes", sr.Consumed(), len(stream))
			}
			c.Outcome("nt:ok")
			c.Sig("m%d/n%d/rf%v", plan.Mode, n, core.Unwrap(w).UsedReadFrom)
			for _, o := range ops {
				c.Sig("%d", o.k)
			}
		})
	})
}

// TestInitialBytes: every initial byte (256) x every decode call x content
// shorter / equal / longer than declared, with drawn follow bytes. Complete in
// the initial byte and call dimensions for each run.
func TestInitialBytes(t *testing.T) {
	rapid.Check(t, func(t *rapid.T) {
		core.Run(t, "cbor/initial-bytes", func(c *core.Ctx) {
			follow := c.BytesN("follow", 8)
			// bias the length-carrying follow bytes to small values half of the time
			if c.Bool("follow.small") {
				for i := 0; i < 7; i++ {
					follow[i] = 0
				}
				follow[7] = byte(c.Int("follow.low", 0, 40))
			} else if c.Bool("follow.top") {
				follow[0] |= 0x80
				c.Probe("length field >= 2^63 sent")
			}
			content := c.BytesN("content", 48)
			plan := core.ReaderPlan{ErrAt: -1, Mode: c.Pick("mode", 2) * 3}
			for ib := 0; ib < 256; ib++ {
				ai := ib & 0x1f
				nf := map[int]int{24: 1, 25: 2, 26: 4, 27: 8}[ai]
				head := append([]byte{byte(ib)}, follow[8-nf:]...)
				_, _, arg, _, _ := refcbor.Head(head, 0)
				for variant := 0; variant < 3; variant++ {
					clen := len(content)
					if arg < uint64(len(content)) {
						switch variant {
						case 0:
							clen = int(arg) - 1
						case 1:
							clen = int(arg)
						default:
							clen = int(arg) + 3
						}
						if clen < 0 {
							clen = 0
						}
						if clen > len(content) {
							clen = len(content)
						}
					} else if variant > 0 {
						continue
					}
					stream := append(append([]byte(nil), head...), content[:clen]...)
					for k := callKind(0); k < nCalls; k++ {
						sr := c.NewReader("chan", stream, plan)
						d := verifhook.NewCborDecoder(sr)
						var r callResult
						pi, alloc := c.GuardAlloc("cbor."+callNames[k], func() { r = doCall(d, k) })
						if c.Oracle("C10", "C12") {
							c.CheckTotal("cbor."+callNames[k], len(stream), pi, alloc)
						}
						if pi == nil && c.Oracle("C12") {
							judge(c, stream, 0, k, r, sr.Consumed(), true)
						}
					}
				}
			}
			core.ExhaustiveDone("C12: 256 initial bytes x 6 calls x content shorter/equal/longer, one follow-byte pattern", 1)
			c.Outcome("nt:ok")
			c.Sig("f%x", follow)
		})
	})
}

// TestExhaustiveTruncation: one drawn stream, truncated at every offset, and
// an injected read error at every offset.
func TestExhaustiveTruncation(t *testing.T) {
	rapid.Check(t, func(t *rapid.T) {
		core.Run(t, "cbor/exhaustive-truncation", func(c *core.Ctx) {
			stream, items := buildStream(c, 4)
			if len(stream) > 600 {
				stream = stream[:600]
			}
			for cut := 0; cut <= len(stream); cut++ {
				for mode := 0; mode < 2; mode++ {
					plan := core.ReaderPlan{ErrAt: -1}
					s := stream[:cut]
					if mode == 1 {
						plan.ErrAt, plan.ErrKind = cut, 0
						s = stream
					}
					sr := c.NewReader("chan", s, plan)
					d := verifhook.NewCborDecoder(sr)
					eff := stream[:cut]
					for _, it := range items {
						pos := sr.Consumed()
						k := matching(it.major)
						var r callResult
						pi := c.Guard("cbor."+callNames[k], func() { r = doCall(d, k) })
						if pi != nil {
							if c.Oracle("C10", "C12") {
								c.CheckTotal("cbor."+callNames[k], len(s), pi, 0)
							}
							break
						}
						if c.Oracle("C12") {
							judge(c, eff, pos, k, r, sr.Consumed(), false)
						}
						if r.err != nil {
							break
						}
					}
				}
			}
			c.Fault("chan-truncate")
			c.Fault("read-error-sticky")
			core.ExhaustiveDone("C12: truncation and injected read error at every offset of one stream", 1)
			c.Outcome("ok")
			c.Sig("len%d", len(stream))
		})
	})
}

// TestInterleavedDecoders: two or three Decoder objects over different streams
// are used alternately (a drawn schedule of calls); every call is judged at
// its own decoder's position. State must not leak between decoders.
func TestInterleavedDecoders(t *testing.T) {
	rapid.Check(t, func(t *rapid.T) {
		core.Run(t, "cbor/interleaved-decoders", func(c *core.Ctx) {
			n := c.Int("ndecoders", 2, 3)
			type dec struct {
				stream []byte
				src    source
				d      *verifhook.CborDecoder
				done   bool
				kept   [][2][]byte
			}
			ds := make([]*dec, n)
			for i := range ds {
				st, _ := buildStream(c, 5)
				if c.Chance("truncate", 1, 4) && len(st) > 1 {
					st = st[:c.Int("truncateAt", 1, len(st)-1)]
					c.Fault("chan-truncate")
				}
				src, _ := drawSource(c, st, core.ReaderPlan{ErrAt: -1, Mode: c.Pick("mode", 2) * 3})
				ds[i] = &dec{stream: st, src: src, d: verifhook.NewCborDecoder(src.r)}
			}
			var sched []byte
			for step := 0; step < 40; step++ {
				var live []int
				for i, d := range ds {
					if !d.done {
						live = append(live, i)
					}
				}
				if len(live) == 0 {
					break
				}
				i := live[c.Pick("sched.next", len(live))]
				d := ds[i]
				sched = append(sched, byte('0'+i))
				pos := d.src.consumed()
				major, _, _, _, _ := refcbor.Head(d.stream, pos)
				k := matching(major)
				var r callResult
				pi := c.Guard("cbor."+callNames[k], func() { r = doCall(d.d, k) })
				if pi != nil {
					if c.Oracle("C10", "C12") {
						c.CheckTotal("cbor."+callNames[k], len(d.stream), pi, 0)
					}
					d.done = true
					continue
				}
				if c.Oracle("C12") {
					judge(c, d.stream, pos, k, r, d.src.consumed(), true)
				}
				if r.err == nil && (k == callBytes) {
					d.kept = append(d.kept, [2][]byte{r.b, append([]byte(nil), r.b...)})
				}
				if r.err != nil || d.src.consumed() >= len(d.stream) {
					d.done = true
				}
			}
			if c.Oracle("C12") {
				for i, d := range ds {
					for _, kv := range d.kept {
						if !bytes.Equal(kv[0], kv[1]) {
							c.Violation("result-changed-later", "DecodeByteString", "a byte string returned by decoder %d was modified by later calls (schedule %s)", i, sched)
						}
					}
				}
			}
			c.Outcome("nt:done")
			c.Sig("%s", sched)
		})
	})
}

// TestConcurrentDecoders: two or three decoder tasks over their own streams run
// under the cooperative scheduler and are parked at every Read of their
// (chunked) channel - also in the middle of a string body. Each call is judged
// against its own stream. Some streams are truncated so that failed string
// decodes precede and accompany the successful ones.
func TestConcurrentDecoders(t *testing.T) {
	rapid.Check(t, func(t *rapid.T) {
		core.Run(t, "cbor/concurrent-decoders", func(c *core.Ctx) {
			n := c.Int("ntasks", 2, 3)
			type callRec struct {
				pos      int
				k        callKind
				r        callResult
				consumed int
			}
			streams := make([][]byte, n)
			recs := make([][]callRec, n)
			readers := make([]*core.SimReader, n)
			var tasks []func(yield func())
			for i := 0; i < n; i++ {
				i := i
				st, _ := buildStream(c, 4)
				if c.Chance("truncate", 1, 3) && len(st) > 1 {
					st = st[:c.Int("truncateAt", 1, len(st)-1)]
					c.Fault("chan-truncate")
				}
				streams[i] = st
				plan := core.ReaderPlan{ErrAt: -1, Mode: 1, Chunk: c.PickInt("chunk", 1, 3, 8, 64)}
				readers[i] = c.NewReader(fmt.Sprintf("chan%d", i), st, plan)
				tasks = append(tasks, func(yield func()) {
					sr := readers[i]
					sr.OnCall = yield
					d := verifhook.NewCborDecoder(sr)
					for step := 0; step < 8; step++ {
						pos := sr.Consumed()
						if pos >= len(st) {
							return
						}
						major, _, _, _, _ := refcbor.Head(st, pos)
						k := matching(major)
						r := doCall(d, k)
						recs[i] = append(recs[i], callRec{pos, k, r, sr.Consumed()})
						if r.err != nil {
							return
						}
					}
				})
			}
			sched, panics := c.RunTasks("sched", tasks)
			c.Event("schedule %s", sched)
			for i, p := range panics {
				if p != nil && c.Oracle("C10", "C12") {
					c.Violation("panic", "cbor.Decoder", "decoder task %d panicked under schedule %s: %v", i, sched, p)
				}
			}
			if c.Oracle("C12") {
				for i := range recs {
					for _, cr := range recs[i] {
						judge(c, streams[i], cr.pos, cr.k, cr.r, cr.consumed, true)
					}
				}
			}
			c.Outcome("nt:done")
			c.Sig("%s", sched)
		})
	})
}

// TestReuseAfterError: one Decoder over a bytes.Buffer that the caller resets and
// refills per message. A message may be cut short (the call in progress fails);
// the next message, complete, must decode exactly as it would with a fresh
// decoder: nothing of the failed call may linger.
func TestReuseAfterError(t *testing.T) {
	rapid.Check(t, func(t *rapid.T) {
		core.Run(t, "cbor/reuse-after-error", func(c *core.Ctx) {
			buf := &bytes.Buffer{}
			d := verifhook.NewCborDecoder(buf)
			rounds := c.Int("messages", 2, 4)
			for r := 0; r < rounds; r++ {
				stream, items := buildStream(c, 3)
				if r < rounds-1 && len(stream) > 1 && c.Chance("cutShort", 2, 3) {
					// cut inside a head's argument bytes or inside string content
					it := items[c.Pick("cut.item", len(items))]
					end := len(stream)
					cut := it.off + 1 + c.Int("cut.into", 0, 9)
					if cut >= end {
						cut = end - 1
					}
					stream = stream[:cut]
					c.Fault("message-cut-short")
				}
				buf.Reset()
				buf.Write(stream)
				data := stream
				sr := srcCounter{source{buf, func() int { return len(data) - buf.Len() }}}
				c.Event("message %d: %d bytes", r, len(stream))
				consumeLoop(c, d, sr, stream, core.ReaderPlan{ErrAt: -1}, 8)
			}
			c.Sig("rounds%d", rounds)
		})
	})
}

// TestScale: byte and text strings of one to four MiB - exact multiples, one
// more, one less - each followed by a small item, from an in-memory reader and
// from a chunked channel: the value, and exactly its bytes.
func TestScale(t *testing.T) {
	rapid.Check(t, func(t *rapid.T) {
		core.Run(t, "cbor/scale", func(c *core.Ctx) {
			n := c.PickInt("scale.len", 1<<20-1, 1<<20, 1<<20+1, 2<<20, 2<<20+1, 3<<20, 4<<20, 4<<20-1)
			text := c.Bool("scale.text")
			content := make([]byte, n)
			core.FillPattern(content, c.U64("scale.pat", 0, ^uint64(0)))
			major := 2
			if text {
				major = 3
				for i := range content {
					content[i] = 0x20 + content[i]%0x5f
				}
			}
			stream := append(refcbor.AppendHead(nil, major, uint64(n)), content...)
			stream = append(stream, 0x18, 0x2a) // then: unsigned 42
			var r io.Reader = bytes.NewReader(stream)
			if c.Bool("scale.chunked") {
				r = c.NewReader("chan", stream, core.ReaderPlan{ErrAt: -1, Mode: 1, Chunk: c.PickInt("scale.chunk", 4096, 65536, 1<<20)})
			}
			d := verifhook.NewCborDecoder(r)
			var got []byte
			var err error
			pi, alloc := c.GuardAlloc("cbor.DecodeString", func() {
				if text {
					var s string
					s, err = d.DecodeTextString()
					got = []byte(s)
				} else {
					got, err = d.DecodeByteString()
				}
			})
			if c.Oracle("C10", "C12") {
				c.CheckTotal("cbor.DecodeString", len(stream), pi, alloc)
			}
			if pi != nil {
				return
			}
			var next uint64
			var nerr error
			c.Guard("cbor.DecodeUint", func() { next, nerr = d.DecodeUint() })
			if c.Oracle("C12") {
				if err != nil {
					c.Violation("spurious-error", "DecodeString/scale", "a complete %d-byte string was refused: %v", n, err)
				}
				if !bytes.Equal(got, content) {
					c.Violation("wrong-value", "DecodeString/scale", "a %d-byte string decoded to %d bytes", n, len(got))
				}
				if nerr != nil || next != 42 {
					c.Violation("wrong-consumption", "DecodeString/scale", "the item behind a %d-byte string decodes to %d (err=%v), expected 42", n, next, nerr)
				}
			}
			c.Outcome("nt:ok")
			c.Sig("scale/%d/%v", n, text)
		})
	})
}
