package mi

import "encoding/base64"

func refmiceB64(url bool, b []byte) string {
	if url {
		return base64.RawURLEncoding.EncodeToString(b)
	}
	return base64.StdEncoding.EncodeToString(b)
}
