// World W-MI: repository MI encoder -> channel -> repository MI decoder, with
// a caller issuing Reads. Properties C14 (clean), C15 (channel-faults,
// arbitrary), C10 (watchdog only on the fault configurations).
package mi

import (
	"strings"
	"bytes"
	"crypto/sha256"
	"encoding/binary"
	"fmt"
	"io"
	"testing"

	"github.com/WICG/webpackage/go/signedexchange/mice"
	"pgregory.net/rapid"
	"verifsim/core"
	"verifsim/ref/refmice"
)

func TestMain(m *testing.M) { core.Main(m) }

type setup struct {
	draft   refmice.Draft
	enc     mice.Encoding
	rs      int
	payload []byte
}

func drawSetup(c *core.Ctx, maxRS, maxRecords int) setup {
	var s setup
	if c.Bool("draft03") {
		s.draft, s.enc = refmice.Draft03, mice.Draft03Encoding
	} else {
		s.draft, s.enc = refmice.Draft02, mice.Draft02Encoding
	}
	switch c.Pick("rsClass", 4) {
	case 0:
		s.rs = c.Int("rs", 1, 4)
	case 1:
		s.rs = c.Int("rs", 5, 64)
	case 2:
		s.rs = c.PickInt("rs", 255, 256, 1000, 4096, 16383, 16384)
	default:
		s.rs = c.Int("rs", 1, maxRS)
	}
	if s.rs > maxRS {
		s.rs = maxRS
	}
	// payload length: exact multiples, +-1, zero, one, arbitrary
	k := c.Int("records", 0, maxRecords)
	var n int
	switch c.Pick("lenClass", 6) {
	case 5:
		// lengths at which buffers that grow by doubling are exactly full: a power of two from
		// 4096 up, plus room for 0-2 proofs, give or take one (short of one record where the
		// record size allows)
		n = c.PickInt("len.pow", 4096, 8192, 16384, 2048) + 32*c.Int("len.proofs", 0, 2) + c.PickInt("len.delta", -1, 0, 0, 1)
		if maxRecords*s.rs < n {
			n = maxRecords * s.rs
		}
	case 0:
		n = k * s.rs
	case 1:
		n = k*s.rs + 1
	case 2:
		n = k*s.rs - 1
	case 3:
		n = c.Int("len", 0, 3)
	default:
		n = c.Int("len", 0, maxRecords*s.rs)
	}
	if n < 0 {
		n = 0
	}
	if n > 1<<18 {
		n = 1 << 18
	}
	s.payload = c.BytesN("payload", n)
	switch {
	case n == 0:
		c.Probe("payload empty")
	case n%s.rs == 0:
		c.Probe("payload exact multiple of record size")
	}
	if s.rs == 1 {
		c.Probe("record size 1")
	}
	if s.rs == 16384 {
		c.Probe("record size 16384")
	}
	c.Event("setup draft=%d rs=%d len=%d", s.draft, s.rs, n)
	return s
}

// readAll drives the decoder the way a caller would: Read calls with drawn
// buffer sizes, continuing after errors up to `retries` times. It returns all
// bytes ever released, whether clean EOF was reported, and the first error.
type readResult struct {
	out          []byte
	eof          bool
	eofClean     bool // EOF was reported with no error before it
	eofAtLen     int
	firstErr     error
	errAtLen     int
	calls        int
	zeroNonEmpty int // (0,nil) returned for a non-empty buffer
}

func readAll(c *core.Ctx, r io.Reader, rs int, retries int) readResult {
	var res readResult
	res.eofAtLen, res.errAtLen = -1, -1
	bufMode := c.Pick("caller.bufMode", 5) // 0 large, 1 rs-relative mix, 2 tiny, 3 includes zero-length, 4 sniff then io.Copy
	budget := 0
	if bufMode == 4 {
		// the caller sniffs the first bytes with a small Read, then hands the reader to
		// io.Copy (which uses the reader's WriteTo if it has one)
		n := c.PickInt("caller.sniff", 1, 4, rs-1, rs, rs+1, 512)
		if n < 1 {
			n = 1
		}
		buf := make([]byte, n)
		k, err := r.Read(buf)
		res.calls++
		if k < 0 || k > n {
			c.Violation("read-contract", "decoder.Read", "Read returned n=%d for a %d-byte buffer", k, n)
		}
		res.out = append(res.out, buf[:k]...)
		c.Probe("caller sniffs, then io.Copy")
		if err == nil {
			var sink bytes.Buffer
			_, err = io.Copy(&sink, r)
			res.calls++
			res.out = append(res.out, sink.Bytes()...)
			if err == nil {
				err = io.EOF // io.Copy reports a clean end of stream as nil
			}
		}
		if err == io.EOF {
			res.eof, res.eofAtLen, res.eofClean = true, len(res.out), true
		} else {
			res.firstErr, res.errAtLen = err, len(res.out)
		}
		bufMode = 0
		if retries == 0 {
			return res
		}
		retries--
	}
	for {
		var n int
		switch bufMode {
		case 0:
			n = 32 * 1024
		case 1:
			n = c.PickInt("caller.buf", rs-1, rs, rs+1, 2*rs, 1)
		case 2:
			n = c.Int("caller.buf", 1, 3)
		default:
			n = c.PickInt("caller.buf", 0, 1, rs, 4096)
		}
		if n < 0 {
			n = 0
		}
		if n == 0 {
			budget++
			if budget > 8 {
				n = 1
			}
		}
		buf := make([]byte, n)
		k, err := r.Read(buf)
		res.calls++
		if k < 0 || k > n {
			c.Violation("read-contract", "decoder.Read", "Read returned n=%d for a %d-byte buffer", k, n)
		}
		res.out = append(res.out, buf[:k]...)
		for i := range buf {
			buf[i] = 0xa5 // the caller's buffer is the caller's: it reuses it at once
		}
		if k == 0 && err == nil && n > 0 {
			res.zeroNonEmpty++
		}
		if err == io.EOF {
			if !res.eof {
				res.eof, res.eofAtLen = true, len(res.out)
				res.eofClean = res.firstErr == nil
			}
			// one more call: EOF must be sticky and release nothing
			if retries > 0 {
				retries--
				continue
			}
			return res
		}
		if err != nil {
			if res.firstErr == nil {
				res.firstErr, res.errAtLen = err, len(res.out)
			}
			if retries > 0 {
				retries--
				c.Event("caller retries after error %q", err.Error())
				continue
			}
			return res
		}
		if res.calls > 4*(len(res.out)+64)+16 {
			c.Violation("no-progress", "decoder.Read", "caller made %d Read calls and received %d bytes", res.calls, len(res.out))
		}
	}
}

// ---------------------------------------------------------------------------
// C14: clean configuration.

// inMemoryEnds: the in-memory reader and writer types programs really use, in
// the states they are really in - a destination bytes.Buffer that is not fresh
// (reused after a larger output, pre-sized, or already holding other data), a
// source bytes.Reader / bytes.Buffer that was advanced past a prefix before
// the decoder got it, and a source bytes.Buffer that is still being filled
// while the decoder reads.
func inMemoryEnds(c *core.Ctx, s setup, digest string, refStream []byte) {
	var dst bytes.Buffer
	pre := []byte(nil)
	switch c.Pick("mem.dst", 3) {
	case 0:
		dst.Write(make([]byte, len(refStream)+c.Int("mem.dstSlack", 1, 5000)))
		dst.Reset()
	case 1:
		dst.Grow(len(refStream) + c.Int("mem.dstGrow", 1, 5000))
	default:
		pre = c.Bytes("mem.dstPrefix", 1, 40)
		dst.Grow(len(pre) + c.Int("mem.dstSlack", 0, 3*len(refStream)+64))
		dst.Write(pre)
	}
	var d2 string
	var err error
	if pi := c.Guard("mice.Encode", func() { d2, err = s.enc.Encode(&dst, s.payload, s.rs) }); pi != nil {
		if c.Oracle("C14", "C10") {
			c.Violation("panic", pi.Site, "Encode into a bytes.Buffer that is not fresh panicked: %s", pi.Value)
		}
		return
	}
	if c.Oracle("C14") {
		if err != nil || d2 != digest {
			c.Violation("encode-error", "mice.Encode/used-buffer", "Encode into a bytes.Buffer that is not fresh: err=%v digest %q, expected %q", err, d2, digest)
		}
		if !bytes.Equal(dst.Bytes(), append(append([]byte(nil), pre...), refStream...)) {
			c.Violation("stream-mismatch", "mice.Encode/used-buffer", "a bytes.Buffer that was not fresh holds %d bytes that are not prefix + stream (%d + %d)", dst.Len(), len(pre), len(refStream))
		}
	}
	// sources
	prefix := c.Bytes("mem.srcPrefix", 1, 70)
	whole := append(append([]byte(nil), prefix...), refStream...)
	var src io.Reader
	var feed func()
	var lateFeed func()
	switch c.Pick("mem.src", 4) {
	case 3:
		// a bytes.Buffer that holds only the 8-byte header when the decoder is created; the
		// records arrive before the first Read
		if len(refStream) < 8 {
			src = bytes.NewBuffer(append([]byte(nil), refStream...))
			break
		}
		b := bytes.NewBuffer(append([]byte(nil), refStream[:8]...))
		src = b
		lateFeed = func() { b.Write(refStream[8:]) }
		c.Probe("source bytes.Buffer filled after NewDecoder")
	case 0:
		r := bytes.NewReader(whole)
		r.Seek(int64(len(prefix)), io.SeekStart)
		src = r
	case 1:
		b := bytes.NewBuffer(whole)
		b.Next(len(prefix))
		src = b
	default:
		// a bytes.Buffer that receives the stream in two parts: the second part arrives after
		// the first small Read (cut behind a whole record-and-proof unit, so that the decoder
		// never sees a premature end)
		units := (len(refStream) - 8) / (s.rs + 32)
		if len(refStream) < 8 || units < 1 {
			src = bytes.NewBuffer(append([]byte(nil), refStream...))
			break
		}
		cut := 8 + c.Int("mem.srcUnits", 1, units)*(s.rs+32)
		b := bytes.NewBuffer(append([]byte(nil), refStream[:cut]...))
		src = b
		feed = func() { b.Write(refStream[cut:]) }
		c.Probe("source bytes.Buffer filled while the decoder reads")
	}
	var dec io.Reader
	limit := c.PickU64("mem.limit", 16384, 16384, ^uint64(0), 1<<63, 1<<63-1, 1<<32) // incl. "no limit"
	if pi := c.Guard("mice.NewDecoder", func() { dec, err = s.enc.NewDecoder(src, digest, limit) }); pi != nil {
		if c.Oracle("C14", "C10") {
			c.Violation("panic", pi.Site, "NewDecoder panicked: %s", pi.Value)
		}
		return
	}
	if err != nil {
		if c.Oracle("C14", "C15") {
			c.Violation("decode-error", "mice.NewDecoder/in-memory-source", "NewDecoder failed on the honest stream read from an advanced in-memory reader: %v", err)
		}
		return
	}
	if lateFeed != nil {
		lateFeed()
	}
	var out []byte
	if feed != nil {
		small := make([]byte, c.Int("mem.firstRead", 1, s.rs))
		n, rerr := dec.Read(small)
		out = append(out, small[:n]...)
		if rerr != nil && c.Oracle("C14", "C15") {
			c.Violation("decode-error", "mice.decoder.Read/in-memory-source", "first Read failed: %v", rerr)
		}
		feed()
	}
	var rr readResult
	if pi := c.Guard("mice.decoder.Read", func() { rr = readAll(c, dec, s.rs, 0) }); pi != nil {
		c.CheckTotal("mice.decoder.Read", len(refStream), pi, 0)
		return
	}
	out = append(out, rr.out...)
	if c.Oracle("C14", "C15") {
		if rr.firstErr != nil {
			c.Violation("decode-error", "mice.decoder.Read/in-memory-source", "Read failed on the honest stream after %d bytes: %v", len(out), rr.firstErr)
		}
		if !bytes.Equal(out, s.payload) {
			c.Violation("roundtrip-mismatch", "mice.decoder.Read/in-memory-source", "decoded %s, payload %s", core.Hex(out), core.Hex(s.payload))
		}
	}
	c.Probe("in-memory destination and source in used states")
}

func runClean(c *core.Ctx, s setup) {
	// encode through a simulated destination
	wp := core.WriterPlan{FailAt: -1, ReaderFrom: c.Bool("dst.readerFrom")}
	w := c.NewWriter("dst", wp)
	var digest string
	var err error
	if pi := c.Guard("mice.Encode", func() { digest, err = s.enc.Encode(w, s.payload, s.rs) }); pi != nil {
		c.Violation("panic", pi.Site, "Encode panicked: %s", pi.Value)
	}
	if err != nil {
		c.Violation("encode-error", "mice.Encode", "Encode failed on a healthy writer: %v", err)
	}
	stream := core.Unwrap(w).Accepted
	refDigest, refStream := refmice.Encode(s.draft, s.payload, s.rs)
	if c.Oracle("C14") {
		if digest != refDigest {
			c.Violation("digest-mismatch", "mice.Encode", "digest %q, reference %q", digest, refDigest)
		}
		if !bytes.Equal(stream, refStream) {
			c.Violation("stream-mismatch", "mice.Encode", "stream %s, reference %s", core.Hex(stream), core.Hex(refStream))
		}
		if s.enc.DigestHeaderName() != s.draft.HeaderName() || s.enc.ContentEncoding() != s.draft.Name() {
			c.Violation("header-name", "mice.Encoding", "header name %q/%q", s.enc.DigestHeaderName(), s.enc.ContentEncoding())
		}
	}
	if c.Chance("inMemoryEnds", 1, 4) || (core.ActiveProp() == "C15" && c.Bool("inMemoryEnds.c15")) {
		inMemoryEnds(c, s, digest, refStream)
	}
	// decode under a clean but arbitrary delivery schedule
	plan := c.DrawReaderPlan("chan", len(stream), false)
	c.Event("reader plan %v", plan)
	c.Sig("m%d/c%v/s%v", plan.Mode, plan.CoalesceEOF, plan.Stalls > 0)
	sr := c.NewReader("chan", stream, plan)
	src, _ := c.WrapSource("chan", sr)
	var dec io.Reader
	if pi := c.Guard("mice.NewDecoder", func() { dec, err = s.enc.NewDecoder(src, digest, 16384) }); pi != nil {
		c.Violation("panic", pi.Site, "NewDecoder panicked: %s", pi.Value)
	}
	if err != nil {
		c.Violation("decode-error", "mice.NewDecoder", "NewDecoder failed on the honest stream: %v", err)
	}
	var rr readResult
	if pi := c.Guard("mice.decoder.Read", func() { rr = readAll(c, dec, s.rs, 1) }); pi != nil {
		c.CheckTotal("mice.decoder.Read", len(stream), pi, 0)
	}
	if c.Oracle("C14") {
		if rr.firstErr != nil {
			c.Violation("decode-error", "mice.decoder.Read", "Read failed on the honest stream after %d bytes: %v", rr.errAtLen, rr.firstErr)
		}
		if !bytes.Equal(rr.out, s.payload) {
			c.Violation("roundtrip-mismatch", "mice.decoder.Read", "decoded %s, payload %s", core.Hex(rr.out), core.Hex(s.payload))
		}
		if !rr.eof || rr.eofAtLen != len(s.payload) {
			c.Violation("eof", "mice.decoder.Read", "eof=%v at %d, payload %d", rr.eof, rr.eofAtLen, len(s.payload))
		}
		if rr.zeroNonEmpty > 0 {
			c.Violation("zero-read", "mice.decoder.Read", "%d Read calls returned (0,nil) for a non-empty buffer", rr.zeroNonEmpty)
		}
		// bounded progress on the underlying stream
		if sr.Calls > len(stream)+plan.Stalls+int(sr.ZeroCalls)+16 {
			c.Violation("unbounded-reads", "mice.decoder.Read", "%d reads on a %d-byte stream", sr.Calls, len(stream))
		}
	}
	c.Outcome("nt:ok")
	c.Sig("rs%d/n%d/rf%v", rsClass(s.rs), lenClass(len(s.payload), s.rs), wp.ReaderFrom)
}

func rsClass(rs int) int {
	switch {
	case rs == 1:
		return 0
	case rs < 32:
		return 1
	case rs < 16384:
		return 2
	}
	return 3
}

func lenClass(n, rs int) int {
	switch {
	case n == 0:
		return 0
	case n < rs:
		return 1
	case n == rs:
		return 2
	case n%rs == 0:
		return 3
	case n%rs == 1:
		return 4
	case n%rs == rs-1:
		return 5
	}
	return 6
}

func TestClean(t *testing.T) {
	rapid.Check(t, func(t *rapid.T) {
		core.Run(t, "mi/clean", func(c *core.Ctx) {
			s := drawSetup(c, 16384, 5)
			runClean(c, s)
		})
	})
}

// TestCleanExhaustive: for a drawn small record size, every payload length
// 0..L (all residues, exact multiples), both drafts.
func TestCleanExhaustive(t *testing.T) {
	rapid.Check(t, func(t *rapid.T) {
		core.Run(t, "mi/clean-exhaustive", func(c *core.Ctx) {
			rs := c.Int("rs", 1, 9)
			L := 4*rs + 2
			pat := c.U64("payload.pat", 0, ^uint64(0))
			for _, d := range []refmice.Draft{refmice.Draft02, refmice.Draft03} {
				for n := 0; n <= L; n++ {
					s := setup{draft: d, rs: rs, payload: make([]byte, n)}
					core.FillPattern(s.payload, pat+uint64(n))
					s.enc = mice.Draft03Encoding
					if d == refmice.Draft02 {
						s.enc = mice.Draft02Encoding
					}
					runClean(c, s)
				}
			}
			core.ExhaustiveDone("C14: payload lengths 0..4rs+2 for one rs, both drafts", 1)
		})
	})
}

// ---------------------------------------------------------------------------
// C15: channel faults on an honest stream with an honest digest.

type faulted struct {
	stream []byte
	digest string
	maxRS  uint64
	kind   string
}

func frameBytes(stream []byte, f refmice.Frame) (int, int) {
	end := f.RecOff + f.RecLen
	if f.ProofOff >= 0 {
		end = f.ProofOff + 32
	}
	return f.RecOff, end
}

func applyChannelFault(c *core.Ctx, s setup, stream []byte) ([]byte, string) {
	frames := refmice.Layout(len(stream), s.rs)
	kinds := []string{"truncate", "truncate-boundary", "bitflip-record", "bitflip-proof", "drop-frame", "dup-frame", "swap-frames", "append-garbage", "append-replay", "rs-edit", "generic", "none"}
	if len(stream) < 8 { // draft-03 empty stream
		kinds = []string{"append-garbage", "none"}
	}
	kind := kinds[c.Pick("fault.kind", len(kinds))]
	out := append([]byte(nil), stream...)
	switch kind {
	case "truncate":
		at := c.Int("fault.at", 0, len(out)-1)
		out = out[:at]
		c.Fault("chan-truncate")
		c.Event("truncate at %d of %d", at, len(stream))
	case "truncate-boundary":
		// cut exactly after a record (before its successor's proof) or exactly after a proof
		f := frames[c.Pick("fault.frame", len(frames))]
		at := f.RecOff + f.RecLen
		if f.ProofOff >= 0 && c.Bool("fault.afterProof") {
			at = f.ProofOff + 32
		}
		if at >= len(out) {
			at = f.RecOff // cut before the last record: the stream ends right after a proof
		}
		out = out[:at]
		c.Fault("chan-truncate-at-record-boundary")
		c.Probe("truncation exactly at a record boundary")
		c.Event("truncate at boundary %d of %d", at, len(stream))
	case "bitflip-record":
		f := frames[c.Pick("fault.frame", len(frames))]
		if f.RecLen == 0 {
			return out, "none"
		}
		off := f.RecOff + c.Int("fault.off", 0, f.RecLen-1)
		out[off] ^= 1 << uint(c.Int("fault.bit", 0, 7))
		c.Fault("chan-bitflip-record")
		c.Event("bitflip in record at %d", off)
	case "bitflip-proof":
		var withProof []refmice.Frame
		for _, f := range frames {
			if f.ProofOff >= 0 {
				withProof = append(withProof, f)
			}
		}
		if len(withProof) == 0 {
			return out, "none"
		}
		f := withProof[c.Pick("fault.frame", len(withProof))]
		off := f.ProofOff + c.Int("fault.off", 0, 31)
		out[off] ^= 1 << uint(c.Int("fault.bit", 0, 7))
		c.Fault("chan-bitflip-proof")
		c.Event("bitflip in proof at %d", off)
	case "drop-frame", "dup-frame":
		i := c.Pick("fault.frame", len(frames))
		a, b := frameBytes(out, frames[i])
		if kind == "drop-frame" {
			out = append(out[:a:a], out[b:]...)
			c.Fault("chan-drop-frame")
		} else {
			fr := append([]byte(nil), out[a:b]...)
			out = append(out[:b:b], append(fr, stream[b:]...)...)
			c.Fault("chan-dup-frame")
		}
		c.Event("%s %d [%d,%d)", kind, i, a, b)
	case "swap-frames":
		if len(frames) < 3 {
			return out, "none"
		}
		i := c.Int("fault.frame", 0, len(frames)-3) // swap two full frames
		a1, b1 := frameBytes(out, frames[i])
		a2, b2 := frameBytes(out, frames[i+1])
		sw := append([]byte(nil), out[:a1]...)
		sw = append(sw, stream[a2:b2]...)
		sw = append(sw, stream[a1:b1]...)
		sw = append(sw, stream[b2:]...)
		if bytes.Equal(sw, stream) {
			return out, "none"
		}
		out = sw
		c.Fault("chan-swap-frames")
		c.Event("swap frames %d,%d", i, i+1)
	case "append-garbage":
		g := c.Bytes("fault.garbage", 1, 80)
		out = append(out, g...)
		c.Fault("chan-append-garbage")
		c.Event("append %d garbage bytes", len(g))
	case "append-replay":
		f := frames[c.Pick("fault.frame", len(frames))]
		a, b := frameBytes(out, f)
		if a == b {
			return out, "none"
		}
		out = append(out, stream[a:b]...)
		c.Fault("chan-append-replayed-frame")
		c.Event("append replayed frame [%d,%d)", a, b)
	case "rs-edit":
		vals := []uint64{0, uint64(s.rs) - 1, uint64(s.rs) + 1, 16384, 16385, 1 << 63, ^uint64(0), 1 << 32}
		v := vals[c.Pick("fault.rs", len(vals))]
		if v == uint64(s.rs) {
			v++
		}
		binary.BigEndian.PutUint64(out[:8], v)
		c.Fault("chan-recordsize-edit")
		c.Event("record size %d -> %d", s.rs, v)
	case "generic":
		out = c.CorruptBlob("fault.blob", out, nil)
	}
	return out, kind
}

func checkSafety(c *core.Ctx, name string, rr readResult, auth []byte, complete bool) {
	// every byte ever released is a prefix of the committed payload
	if len(rr.out) > len(auth) || !bytes.Equal(rr.out, auth[:len(rr.out)]) {
		c.Violation("unauthenticated-output", name, "released %s; authenticated payload prefix %s", core.Hex(rr.out), core.Hex(auth))
	}
	if rr.eof && !(complete && rr.eofAtLen == len(auth)) {
		c.Violation("premature-eof", name, "clean EOF after %d bytes; complete=%v payload=%d", rr.eofAtLen, complete, len(auth))
	}
	if rr.eof && len(rr.out) != rr.eofAtLen {
		c.Violation("output-after-eof", name, "%d bytes released after EOF", len(rr.out)-rr.eofAtLen)
	}
}

// consumedBySource reports how many bytes of the stream the decoder under test has
// taken from its source (set by runDecoder for the source type it drew).
var consumedBySource func() int

func runDecoder(c *core.Ctx, s setup, stream []byte, digest string, maxRS uint64, plan core.ReaderPlan, retries int) (rr readResult, created bool, sr *core.SimReader) {
	sr = c.NewReader("chan", stream, plan)
	var src io.Reader = sr
	consumedBySource = sr.Consumed
	if plan.ErrAt < 0 && plan.Stalls == 0 && c.Chance("chan.inMemory", 1, 5) {
		// the stream sits in memory (what the repository's own callers pass): the reader types
		// that expose how much is left
		switch c.Pick("chan.inMemoryType", 3) {
		case 0:
			r := bytes.NewReader(stream)
			src, consumedBySource = r, func() int { return len(stream) - r.Len() }
		case 1:
			r := bytes.NewBuffer(append([]byte(nil), stream...))
			src, consumedBySource = r, func() int { return len(stream) - r.Len() }
		default:
			r := strings.NewReader(string(stream))
			src, consumedBySource = r, func() int { return len(stream) - r.Len() }
		}
		c.Probe("decoder source is an in-memory reader")
	}
	var dec io.Reader
	var err error
	pi, alloc := c.GuardAlloc("mice.NewDecoder", func() { dec, err = s.enc.NewDecoder(src, digest, maxRS) })
	if c.Oracle("C10", "C15") {
		c.CheckTotal("mice.NewDecoder", len(stream), pi, alloc)
	}
	if pi != nil {
		return rr, false, sr
	}
	if err != nil {
		c.Event("NewDecoder error: %v", trunc(err.Error()))
		return rr, false, sr
	}
	pi, alloc = c.GuardAlloc("mice.decoder.Read", func() { rr = readAll(c, dec, s.rs, retries) })
	if c.Oracle("C10", "C15") {
		c.CheckTotal("mice.decoder.Read", len(stream), pi, alloc)
	}
	return rr, true, sr
}

// effective is the stream as the consumer can observe it: a transport that
// reports io.ErrUnexpectedEOF at offset k is indistinguishable from a stream
// truncated at k.
func effective(stream []byte, plan core.ReaderPlan) []byte {
	if plan.ErrAt >= 0 && plan.ErrKind == 2 && plan.ErrAt < len(stream) {
		return stream[:plan.ErrAt]
	}
	return stream
}

func trunc(s string) string {
	if len(s) > 80 {
		return s[:80]
	}
	return s
}

func TestChannelFaults(t *testing.T) {
	rapid.Check(t, func(t *rapid.T) {
		core.Run(t, "mi/channel-faults", func(c *core.Ctx) {
			s := drawSetup(c, 16384, 5)
			digest, stream := refmice.Encode(s.draft, s.payload, s.rs)
			bad, kind := applyChannelFault(c, s, stream)
			plan := c.DrawReaderPlan("chan", len(bad), true)
			c.Event("reader plan %v", plan)
			maxRS := uint64(16384)
			if c.Chance("tightLimit", 1, 6) {
				// (a limit of 0 admits no record size at all)
				maxRS = uint64(c.PickInt("maxRS", s.rs-1, s.rs, s.rs+1, 0))
			}
			rr, created, _ := runDecoder(c, s, bad, digest, maxRS, plan, c.Int("caller.retries", 0, 3))
			if c.Oracle("C15") {
				// The digest is honest: the unique committed payload is s.payload.
				unchanged := bytes.Equal(bad, stream)
				checkSafety(c, "mice.decoder.Read", rr, s.payload, true)
				top, _ := refmice.ParseHeader(s.draft, digest)
				ref := refmice.Decode(s.draft, effective(bad, plan), top, maxRS)
				// Without an earlier error nothing was skipped, so the stream as a
				// whole must authenticate in the reference model. (After an error a
				// retrying caller may legitimately reach EOF once the rest of the
				// committed payload - possibly empty - has been delivered.)
				if rr.eofClean && !ref.Complete {
					c.Violation("premature-eof", "mice.decoder.Read/ref", "clean EOF on a stream the reference does not authenticate completely (fault %s)", kind)
				}
				if !created && len(bad) >= 8 {
					rsv := binary.BigEndian.Uint64(bad[:8])
					if (rsv == 0 || rsv > maxRS) && consumedBySource() != 8 && plan.ErrAt < 0 {
						c.Violation("read-before-refusal", "mice.NewDecoder", "record size %d refused after consuming %d bytes", rsv, consumedBySource())
					}
					if rsv == 0 || rsv > maxRS {
						c.Probe("record size refused (0 or above limit)")
					}
				}
				if created && len(bad) >= 8 {
					rsv := binary.BigEndian.Uint64(bad[:8])
					if rsv == 0 || rsv > maxRS {
						c.Violation("bad-recordsize-accepted", "mice.NewDecoder", "record size %d accepted with limit %d", rsv, maxRS)
					}
				}
				// control: an unchanged stream, no injected error, must decode fully
				if unchanged && plan.ErrAt < 0 && maxRS >= uint64(s.rs) {
					if !rr.eof || !bytes.Equal(rr.out, s.payload) {
						c.Violation("control-failed", "mice.decoder.Read", "fault-free delivery did not decode: eof=%v out=%d payload=%d err=%v", rr.eof, len(rr.out), len(s.payload), rr.firstErr)
					}
				}
			}
			switch {
			case rr.eof:
				c.Outcome("eof")
			case rr.firstErr != nil:
				c.Outcome("error")
			case !created:
				c.Outcome("refused")
			}
			c.Sig("%s/out%d", kind, lenClass(len(rr.out), s.rs))
		})
	})
}

// TestArbitrary: arbitrary streams against arbitrary digests. The stream is
// built from pieces of honest streams and noise; the digest is that of some
// (possibly other) payload or random.
func TestArbitrary(t *testing.T) {
	rapid.Check(t, func(t *rapid.T) {
		core.Run(t, "mi/arbitrary", func(c *core.Ctx) {
			s := drawSetup(c, 64, 4)
			digest, stream := refmice.Encode(s.draft, s.payload, s.rs)
			var top []byte
			// committed = the unique payload the chosen digest commits to (known
			// by construction; for a random digest nothing may ever be released)
			committed, commits := s.payload, true
			switch c.Pick("digest.kind", 7) {
			case 5:
				// digest values an implementation might use as a sentinel: all zero, all ones, the
				// hash of nothing, of a lone 0 / 1 byte
				switch c.Pick("digest.special", 5) {
				case 0:
					top = make([]byte, 32)
				case 1:
					top = bytes.Repeat([]byte{0xff}, 32)
				case 2:
					h := sha256.Sum256(nil)
					top = h[:]
				case 3:
					h := sha256.Sum256([]byte{1})
					top = h[:]
				default:
					h := sha256.Sum256([]byte{0})
					top = h[:]
				}
				// what these values commit to does not depend on the stream: SHA-256 of a lone 0
				// byte is the proof of an empty final record, i.e. the digest of the empty payload;
				// no payload at all has any of the others
				committed, commits = nil, false
				if bytes.Equal(top, func() []byte { h := sha256.Sum256([]byte{0}); return h[:] }()) {
					committed, commits = []byte{}, true
				}
				c.Probe("digest with a sentinel-like value")
			case 6:
				// a first record whose proof of the rest is 32 zero bytes (or 32 x 0xff), under a
				// digest that genuinely commits to it: the record is authentic, nothing can follow
				rsz := c.PickInt("zero.rs", 1, 7, 16, 64)
				r1 := c.BytesN("zero.r1", rsz)
				proof := make([]byte, 32)
				if c.Bool("zero.ones") {
					proof = bytes.Repeat([]byte{0xff}, 32)
				}
				var hdr8 [8]byte
				binary.BigEndian.PutUint64(hdr8[:], uint64(rsz))
				stream = append(append(append(append([]byte(nil), hdr8[:]...), r1...), proof...), c.Bytes("zero.tail", 0, 80)...)
				h := sha256.Sum256(append(append(append([]byte(nil), r1...), proof...), 1))
				top = h[:]
				committed, commits = r1, false
				c.Probe("authentic record whose proof of the rest is a sentinel-like value")
			case 4:
				// record size within 32 of 2^64 (size + proof length wraps to a small number)
				// with a digest crafted to match the bytes that follow as a non-final record
				k := c.Int("wrap.k", 1, 32)
				x := c.BytesN("wrap.x", 32-k)
				extra := c.Bytes("wrap.extra", 0, 40)
				var hdr8 [8]byte
				binary.BigEndian.PutUint64(hdr8[:], ^uint64(0)-uint64(k)+1)
				stream = append(append(append([]byte(nil), hdr8[:]...), x...), extra...)
				h := sha256.Sum256(append(append([]byte(nil), x...), 1))
				top = h[:]
				committed, commits = nil, false
				c.Probe("record size near 2^64 with crafted digest")
			case 0: // honest
				top, _ = refmice.ParseHeader(s.draft, digest)
			case 1: // digest of a suffix of the stream (proof of a later record): the stream tail authenticates
				frames := refmice.Layout(len(stream), s.rs)
				f := frames[c.Pick("digest.frame", len(frames))]
				if f.ProofOff >= 0 {
					top = append([]byte(nil), stream[f.ProofOff:f.ProofOff+32]...)
					// and drop everything before that record
					hdr := append([]byte(nil), stream[:8]...)
					stream = append(hdr, stream[f.ProofOff+32:]...)
					committed = refmice.Decode(s.draft, stream, top, 16384).Prefix
				} else {
					top, _ = refmice.ParseHeader(s.draft, digest)
				}
			case 2: // random digest
				top = c.BytesN("digest.random", 32)
				committed, commits = nil, false
			default: // digest of another payload
				other := c.Bytes("digest.other", 0, 40)
				d2, _ := refmice.Encode(s.draft, other, s.rs)
				top, _ = refmice.ParseHeader(s.draft, d2)
				committed = other
			}
			n := c.Int("nfaults", 0, 3)
			for i := 0; i < n; i++ {
				stream = c.CorruptBlob("blob", stream, nil)
			}
			hdr := s.draft.Name() + "="
			if s.draft == refmice.Draft02 {
				hdr += b64url(top)
			} else {
				hdr += b64std(top)
			}
			if c.Chance("digest.list", 1, 6) {
				// a digest LIST (RFC 3230): the MI entry names some other 32 bytes, and a further
				// element of another algorithm carries the value the stream actually chains to.
				// Only the MI entry can authenticate anything; the stream matches nothing it names.
				x := c.BytesN("digest.listMI", 32)
				enc := b64std
				if s.draft == refmice.Draft02 {
					enc = b64url
				}
				hdr = s.draft.Name() + "=" + enc(x) + c.PickStr("digest.listSep", ",", ", ") + c.PickStr("digest.listAlg", "sha-256", "sha-512", "md5") + "=" + enc(top)
				top, committed, commits = x, nil, false
				c.Probe("digest header listing a second element")
			}
			plan := c.DrawReaderPlan("chan", len(stream), true)
			c.Event("reader plan %v", plan)
			rr, _, _ := runDecoder(c, s, stream, hdr, 16384, plan, c.Int("caller.retries", 0, 2))
			if c.Oracle("C15") {
				ref := refmice.Decode(s.draft, effective(stream, plan), top, 16384)
				// (an EOF that follows an error the decoder has already reported is not a clean end of
				// stream - the caller was told the stream is bad - as in mi/channel-faults)
				first := rr
				first.eof = rr.eofClean
				checkSafety(c, "mice.decoder.Read/arbitrary", first, committed, commits)
				if rr.errAtLen < 0 || rr.eofClean {
					// no error so far: nothing was skipped, the reference model's view of the contiguous stream applies
					pre := rr
					pre.eof = rr.eofClean
					checkSafety(c, "mice.decoder.Read/arbitrary-ref", pre, ref.Prefix, ref.Complete)
				}
				if ref.Complete {
					c.Probe("arbitrary stream authenticates completely")
				}
			}
			if rr.eof {
				c.Outcome("eof")
			} else {
				c.Outcome("error")
			}
			c.Sig("out%d", len(rr.out))
		})
	})
}

// TestExhaustiveFaults: for one drawn small honest stream, every truncation
// length and every single-bit flip, delivered whole. Oracle as C15.
func TestExhaustiveFaults(t *testing.T) {
	rapid.Check(t, func(t *rapid.T) {
		core.Run(t, "mi/exhaustive-faults", func(c *core.Ctx) {
			s := drawSetup(c, 12, 4)
			if len(s.payload) > 64 {
				s.payload = s.payload[:64]
			}
			digest, stream := refmice.Encode(s.draft, s.payload, s.rs)
			plan := core.ReaderPlan{ErrAt: -1}
			one := func(bad []byte, what string, at int) {
				sr := c.NewReader("chan", bad, plan)
				dec, err := s.enc.NewDecoder(sr, digest, 16384)
				if err != nil {
					return
				}
				var rr readResult
				rr.eofAtLen = -1
				buf := make([]byte, 7)
				for {
					k, err := dec.Read(buf)
					rr.out = append(rr.out, buf[:k]...)
					if err == io.EOF {
						rr.eof, rr.eofAtLen = true, len(rr.out)
						break
					}
					if err != nil {
						break
					}
				}
				if c.Oracle("C15") {
					if len(rr.out) > len(s.payload) || !bytes.Equal(rr.out, s.payload[:len(rr.out)]) {
						c.Violation("unauthenticated-output", "exhaustive/"+what, "%s at %d: released %s", what, at, core.Hex(rr.out))
					}
					if rr.eof && !bytes.Equal(rr.out, s.payload) {
						c.Violation("premature-eof", "exhaustive/"+what, "%s at %d: clean EOF after %d of %d bytes", what, at, len(rr.out), len(s.payload))
					}
				}
			}
			for at := 0; at < len(stream); at++ {
				one(stream[:at], "truncate", at)
			}
			for i := 0; i < len(stream)*8; i++ {
				bad := append([]byte(nil), stream...)
				bad[i/8] ^= 1 << uint(i%8)
				one(bad, "bitflip", i)
			}
			c.Fault("chan-truncate")
			c.Fault("chan-bitflip-record")
			core.ExhaustiveDone("C15: every truncation length and single-bit flip of one honest stream", 1)
			c.Sig("len%d/rs%d/d%d", len(stream), s.rs, s.draft)
			c.Outcome("ok")
		})
	})
}

func b64url(b []byte) string { return refmiceB64(true, b) }
func b64std(b []byte) string { return refmiceB64(false, b) }

// TestInterleavedDecoders: several decoders are alive at once (a client
// verifying several resources); their creation and their Read calls are
// interleaved by a drawn schedule. Each decoder must still satisfy the safety
// property of its own stream: state must not leak from one decoder to another.
func TestInterleavedDecoders(t *testing.T) {
	rapid.Check(t, func(t *rapid.T) {
		core.Run(t, "mi/interleaved-decoders", func(c *core.Ctx) {
			n := c.Int("ndecoders", 2, 3)
			type dec struct {
				s       setup
				r       io.Reader
				rr      readResult
				done    bool
				faulted bool
				created bool
				stream  []byte
				digest  string
			}
			ds := make([]*dec, n)
			for i := range ds {
				d := &dec{s: drawSetup(c, 64, 3)}
				d.digest, d.stream = refmice.Encode(d.s.draft, d.s.payload, d.s.rs)
				if c.Chance("faulty", 1, 3) {
					d.stream, _ = applyChannelFault(c, d.s, d.stream)
					d.faulted = true
				}
				d.rr.eofAtLen, d.rr.errAtLen = -1, -1
				ds[i] = d
			}
			steps := 0
			var sched []byte
			for {
				var live []int
				for i, d := range ds {
					if !d.done {
						live = append(live, i)
					}
				}
				if len(live) == 0 || steps > 4000 {
					break
				}
				steps++
				i := live[c.Pick("sched.next", len(live))]
				d := ds[i]
				if len(sched) < 64 {
					sched = append(sched, byte('0'+i))
				}
				if !d.created {
					d.created = true
					var err error
					sr := c.NewReader(fmt.Sprintf("chan%d", i), d.stream, core.ReaderPlan{ErrAt: -1, Mode: c.Pick("chan.mode", 2) * 3})
					pi := c.Guard("mice.NewDecoder", func() { d.r, err = d.s.enc.NewDecoder(sr, d.digest, 16384) })
					if pi != nil || err != nil {
						if c.Oracle("C10", "C15") && pi != nil {
							c.CheckTotal("mice.NewDecoder", len(d.stream), pi, 0)
						}
						d.done = true
					}
					continue
				}
				buf := make([]byte, c.PickInt("caller.buf", 1, 2, 3, 7, 16, 64))
				var k int
				var err error
				pi := c.Guard("mice.decoder.Read", func() { k, err = d.r.Read(buf) })
				if pi != nil {
					if c.Oracle("C10", "C15") {
						c.CheckTotal("mice.decoder.Read", len(d.stream), pi, 0)
					}
					d.done = true
					continue
				}
				d.rr.out = append(d.rr.out, buf[:k]...)
				if err == io.EOF {
					d.rr.eof, d.rr.eofAtLen, d.done = true, len(d.rr.out), true
				} else if err != nil {
					d.done = true
				}
			}
			c.Event("schedule %s", sched)
			if c.Oracle("C15", "C14") {
				for i, d := range ds {
					checkSafety(c, fmt.Sprintf("interleaved-decoder"), d.rr, d.s.payload, true)
					if !d.faulted && d.created && (!d.rr.eof || !bytes.Equal(d.rr.out, d.s.payload)) {
						c.Violation("interleaved-roundtrip", "mice.decoder.Read", "decoder %d of %d on an honest stream delivered %d of %d bytes (eof=%v) under schedule %s", i, n, len(d.rr.out), len(d.s.payload), d.rr.eof, sched)
					}
				}
			}
			c.Outcome("nt:done")
			c.Sig("%s", sched)
		})
	})
}

// TestConcurrentDecoders: decoder tasks (NewDecoder + Read loop) run under the
// cooperative scheduler and are parked at every Read of their chunked channel,
// i.e. also in the middle of a record. Each is judged against its own stream.
func TestConcurrentDecoders(t *testing.T) {
	rapid.Check(t, func(t *rapid.T) {
		core.Run(t, "mi/concurrent-decoders", func(c *core.Ctx) {
			n := c.Int("ntasks", 2, 3)
			type job struct {
				s       setup
				stream  []byte
				digest  string
				faulted bool
				rr      readResult
				created bool
			}
			jobs := make([]*job, n)
			var tasks []func(yield func())
			for i := 0; i < n; i++ {
				j := &job{s: drawSetup(c, 64, 3)}
				j.digest, j.stream = refmice.Encode(j.s.draft, j.s.payload, j.s.rs)
				if c.Chance("faulty", 1, 3) {
					j.stream, _ = applyChannelFault(c, j.s, j.stream)
					j.faulted = true
				}
				j.rr.eofAtLen, j.rr.errAtLen = -1, -1
				jobs[i] = j
				chunk := c.PickInt("chunk", 1, 5, 33, 200)
				bufSize := c.PickInt("caller.buf", 1, 3, 16, 64, 4096)
				sr := c.NewReader(fmt.Sprintf("chan%d", i), j.stream, core.ReaderPlan{ErrAt: -1, Mode: 1, Chunk: chunk})
				tasks = append(tasks, func(yield func()) {
					sr.OnCall = yield
					dec, err := j.s.enc.NewDecoder(sr, j.digest, 16384)
					if err != nil {
						return
					}
					j.created = true
					buf := make([]byte, bufSize)
					for step := 0; step < 100000; step++ {
						k, err := dec.Read(buf)
						j.rr.out = append(j.rr.out, buf[:k]...)
						if err == io.EOF {
							j.rr.eof, j.rr.eofAtLen = true, len(j.rr.out)
							return
						}
						if err != nil {
							return
						}
					}
				})
			}
			sched, panics := c.RunTasks("sched", tasks)
			c.Event("schedule %s", sched)
			for i, p := range panics {
				if p != nil && c.Oracle("C10", "C15", "C14") {
					c.Violation("panic", "mice.decoder", "decoder task %d panicked under schedule %s: %v", i, sched, p)
				}
			}
			if c.Oracle("C15", "C14") {
				for i, j := range jobs {
					checkSafety(c, "concurrent-decoder", j.rr, j.s.payload, true)
					if !j.faulted && (!j.rr.eof || !bytes.Equal(j.rr.out, j.s.payload)) {
						c.Violation("concurrent-roundtrip", "mice.decoder.Read", "task %d on an honest stream delivered %d of %d bytes (eof=%v) under schedule %s", i, len(j.rr.out), len(j.s.payload), j.rr.eof, sched)
					}
				}
			}
			c.Outcome("nt:done")
			c.Sig("%s", sched)
		})
	})
}
