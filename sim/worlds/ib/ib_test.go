// World W-IB: integrity-block signing. A bundle file, an external signing
// party (HSM stub behind ISigningStrategy), histories of signing operations,
// and the sign-bundle command's SignWithIntegrityBlock run in-process on real
// scratch files. Properties C07 (clean, hsm-faults, file-faults), C10.
package ib

import (
	"bytes"
	"crypto/ed25519"
	"crypto/sha512"
	"encoding/binary"
	"errors"
	"fmt"
	"io"
	"os"
	"strings"
	"testing"

	"github.com/WICG/webpackage/go/integrityblock"
	"github.com/WICG/webpackage/go/integrityblock/webbundleid"
	"github.com/WICG/webpackage/go/verifhook/signbundlecmd"
	"pgregory.net/rapid"
	"verifsim/core"
	"verifsim/fixtures"
	"verifsim/ref/refib"
)

func TestMain(m *testing.M) { core.Main(m) }

// ---- the external signing party ---------------------------------------------------

type hsm struct {
	c         *core.Ctx
	priv      ed25519.PrivateKey
	pub       ed25519.PublicKey
	fault     string // "", "sign-error", "flip-bit", "other-key", "pubkey-mismatch", "pubkey-error", "truncated-sig"
	otherPriv ed25519.PrivateKey
	otherPub  ed25519.PublicKey
	signCalls int
	pubCalls  int
	yield     func() // cooperative scheduling: the remote signer takes time, other callers run meanwhile
}

func (h *hsm) Sign(data []byte) ([]byte, error) {
	h.signCalls++
	if h.yield != nil {
		h.yield()
		defer h.yield()
	}
	switch h.fault {
	case "sign-error":
		h.c.Fault("hsm-sign-error")
		return nil, errors.New("sim: HSM unavailable")
	case "flip-bit":
		s := ed25519.Sign(h.priv, data)
		s[h.c.Int("hsm.flipByte", 0, len(s)-1)] ^= 1 << uint(h.c.Int("hsm.flipBit", 0, 7))
		h.c.Fault("hsm-signature-bit-flipped")
		return s, nil
	case "other-key":
		h.c.Fault("hsm-wrong-slot")
		return ed25519.Sign(h.otherPriv, data), nil
	case "truncated-sig":
		h.c.Fault("hsm-truncated-signature")
		return ed25519.Sign(h.priv, data)[:h.c.Int("hsm.sigLen", 0, 63)], nil
	case "trailing-bytes":
		// the answer buffer holds the right signature followed by more bytes (a line end, a
		// status byte, the rest of a fixed-size buffer): not an Ed25519 signature
		h.c.Fault("hsm-signature-with-trailing-bytes")
		return append(ed25519.Sign(h.priv, data), h.c.PickStr("hsm.trailing", "\n", "\r\n", "\x00", "\x90\x00", string(make([]byte, 64)))...), nil
	}
	return ed25519.Sign(h.priv, data), nil
}

func (h *hsm) GetPublicKey() (ed25519.PublicKey, error) {
	if h.yield != nil {
		h.yield()
	}
	switch h.fault {
	case "pubkey-error":
		h.c.Fault("hsm-getpublickey-error")
		return nil, errors.New("sim: HSM unavailable")
	case "pubkey-mismatch":
		h.c.Fault("hsm-publickey-mismatch")
		return h.otherPub, nil
	case "pubkey-flaps":
		// the first answer names another slot's key, every later answer the right one: whatever
		// key ends up recorded must be one the signature verifies under
		h.pubCalls++
		if h.pubCalls == 1 {
			h.c.Fault("hsm-publickey-first-answer-stale")
			return h.otherPub, nil
		}
	}
	return h.pub, nil
}

var hsmFaults = []string{"sign-error", "flip-bit", "other-key", "pubkey-mismatch", "pubkey-error", "truncated-sig", "trailing-bytes", "pubkey-flaps"}

func newHSM(c *core.Ctx, label string, allowFault bool) *hsm {
	i := c.Int(label+".key", 0, 7)
	h := &hsm{c: c}
	h.pub, h.priv = fixtures.Ed25519Key(i)
	h.otherPub, h.otherPriv = fixtures.Ed25519Key(i + 8)
	if allowFault && c.Chance(label+".faulty", 1, 2) {
		h.fault = hsmFaults[c.Pick(label+".fault", len(hsmFaults))]
	}
	return h
}

// ---- helpers -------------------------------------------------------------------------

// bundleFile builds file content whose last 8 bytes state a length.
func bundleFile(c *core.Ctx) ([]byte, string) {
	n := c.PickInt("file.len", 8, 9, 16, 100, 1000, 4096, 70000, 65536, 131072, 65535, 65537)
	if c.Bool("file.anyLen") {
		n = c.Int("file.len2", 8, 600)
	}
	data := c.BytesN("file.data", n)
	kind := c.PickStr("file.kind", "own-length", "own-length", "own-length", "less", "more", "huge", "with-block")
	var stated uint64
	switch kind {
	case "with-block":
		// the file already carries an integrity block in front of the bundle: the empty
		// one [magic, version, []], or one listing 1-2 (arbitrary) signatures
		var stack []refib.Sig
		for i := c.PickInt("file.blockSigs", 0, 0, 1, 2); i > 0; i-- {
			pub, _ := fixtures.Ed25519Key(i)
			stack = append(stack, refib.Sig{Attrs: map[string][]byte{"ed25519PublicKey": []byte(pub)}, Signature: c.BytesN("file.blockSig", 64)})
		}
		blk := refib.EncodeBlock(stack)
		binary.BigEndian.PutUint64(data[n-8:], uint64(n))
		c.Fault("input-already-carries-a-block")
		return append(blk, data...), kind
	case "own-length":
		stated = uint64(n)
	case "less":
		stated = uint64(c.Int("file.less", 0, n-1))
	case "more":
		stated = uint64(n) + uint64(c.PickInt("file.more", 1, 2, 1000, 1<<31))
	case "huge":
		// (also: the file's own size with the top bit set, or shifted by 2^32 / 2^62)
		stated = c.PickU64("file.huge", 1<<63, 1<<63+1, ^uint64(0), 1<<63-1, 1<<63+uint64(n), 1<<62+uint64(n), 1<<32+uint64(n), 1<<63+uint64(n)-1)
	}
	if kind == "own-length" && n >= 40 && c.Chance("file.looksSigned", 1, 8) {
		// an UNSIGNED file (its trailing length is its own size) whose content happens to
		// start like an integrity block - any content is a legal bundle here
		copy(data, refib.EncodeBlock(nil))
		c.Probe("unsigned file whose content starts like an integrity block")
	}
	binary.BigEndian.PutUint64(data[n-8:], stated)
	return data, kind
}

func extraAttrs(c *core.Ctx, pub ed25519.PublicKey) integrityblock.SignatureAttributesMap {
	names := []string{"a", "zz", "ed25519PublicKeyX", "e", "alongerattributenamethatisover23bytes", "k1", "cl\u00e9", "\u7f72\u540d", "x\U0001F4E6"}
	n := c.Int("attrs.n", 0, 4)
	many := 0
	if c.Chance("attrs.many", 1, 15) {
		// attribute maps around the 23/24-entry CBOR head-size step (counting the public key)
		many = c.PickInt("attrs.manyN", 21, 22, 23, 24)
	}
	perm := c.Perm("attrs.perm", len(names))
	type kv struct {
		k string
		v []byte
	}
	kvs := []kv{{integrityblock.Ed25519publicKeyAttributeName, []byte(pub)}}
	used := map[string]bool{}
	for _, n := range names {
		used[n] = true
	}
	for i := 0; i < n; i++ {
		name := names[perm[i]]
		if c.Chance("attrs.dictName", 1, 6) {
			if dn := c.PickDict("attrs.dict", nil, `^[A-Za-z][A-Za-z0-9]{1,30}$`, integrityblock.Ed25519publicKeyAttributeName); dn != "" && !used[dn] {
				name = dn
			}
		}
		used[name] = true
		kvs = append(kvs, kv{name, c.Bytes("attrs.val", 0, 30)})
	}
	for i := 0; i < many; i++ {
		kvs = append(kvs, kv{fmt.Sprintf("m%02d", i), []byte{byte(i)}})
	}
	// drawn insertion order (plus insert/delete noise to vary the map's bucket layout)
	m := integrityblock.SignatureAttributesMap{}
	if c.Bool("attrs.noise") {
		for i := 0; i < 20; i++ {
			m[fmt.Sprintf("noise%d", i)] = nil
		}
		for i := 0; i < 20; i++ {
			delete(m, fmt.Sprintf("noise%d", i))
		}
	}
	for _, i := range c.Perm("attrs.order", len(kvs)) {
		m[kvs[i].k] = kvs[i].v
	}
	return m
}

func toRefAttrs(m integrityblock.SignatureAttributesMap) map[string][]byte {
	out := map[string][]byte{}
	for k, v := range m {
		out[k] = v
	}
	return out
}

// checkBlock is the C07 oracle on serialized block bytes: shape, canonical form,
// and every signature verifying over the block as it stood before it was added.
func checkBlock(c *core.Ctx, block []byte, hash []byte, wantSigs int, site string) []refib.Sig {
	stack, n, err := refib.DecodeBlock(block)
	if err != nil {
		c.Violation("malformed-block", site, "integrity block does not decode as canonical [magic, version, [[attrs, sig]...]]: %v", err)
	}
	if n != len(block) {
		c.Violation("malformed-block", site, "%d trailing bytes after the integrity block", len(block)-n)
	}
	if wantSigs >= 0 && len(stack) != wantSigs {
		c.Violation("signature-count", site, "%d signatures in the block, %d expected", len(stack), wantSigs)
	}
	for i, s := range stack {
		pub := s.Attrs["ed25519PublicKey"]
		if len(pub) != ed25519.PublicKeySize {
			c.Violation("bad-public-key-attribute", site, "signature %d records a %d-byte public key", i, len(pub))
		}
		before := refib.EncodeBlock(stack[i+1:]) // newest first: the block before signature i held the later entries
		dtbs := refib.DataToBeSigned(hash, before, refib.EncodeAttrs(s.Attrs))
		if !ed25519.Verify(ed25519.PublicKey(pub), dtbs, s.Signature) {
			c.Violation("signature-does-not-verify", site, "signature %d of %d does not verify under the public key recorded in its own attributes", i, len(stack))
		}
	}
	return stack
}

// ---- library-level histories ---------------------------------------------------------------

func TestHistory(t *testing.T) {
	rapid.Check(t, func(t *rapid.T) {
		core.Run(t, "ib/history", func(c *core.Ctx) {
			// one or two bundles are being signed, each with its own block and signer; when
			// there are two, their signing operations alternate in a drawn order
			nb := c.Int("bundles", 1, 2)
			type target struct {
				data []byte
				hash []byte
				blk  *integrityblock.IntegrityBlock
				ibs  *integrityblock.IntegrityBlockSigner
				ibs2 *integrityblock.IntegrityBlockSigner
				good int
			}
			var targets []*target
			for b := 0; b < nb; b++ {
				tg := &target{data: c.Bytes("file.data", 8, 300)}
				sum := sha512.Sum512(tg.data)
				tg.hash = sum[:]
				if c.Bool("block.obtained") {
					// the block as the command obtains it: from an unsigned bundle file
					binary.BigEndian.PutUint64(tg.data[len(tg.data)-8:], uint64(len(tg.data)))
					sum = sha512.Sum512(tg.data)
					tg.hash = sum[:]
					if f, err := os.CreateTemp(".", "hist-*"); err == nil {
						f.Write(tg.data)
						blk, _, oerr := integrityblock.ObtainIntegrityBlock(f)
						f.Close()
						os.Remove(f.Name())
						if oerr == nil {
							tg.blk = blk
						}
					}
				}
				if tg.blk == nil {
					tg.blk = &integrityblock.IntegrityBlock{Magic: integrityblock.IntegrityBlockMagic, Version: integrityblock.VersionB1}
				}
				tg.ibs = &integrityblock.IntegrityBlockSigner{WebBundleHash: tg.hash, IntegrityBlock: tg.blk}
				// a second signer object working on the same block (e.g. another team's key)
				tg.ibs2 = &integrityblock.IntegrityBlockSigner{WebBundleHash: tg.hash, IntegrityBlock: tg.blk}
				targets = append(targets, tg)
			}
			k := c.PickInt("signings", 1, 2, 3, 4, 4, 6, 8) * nb
			if c.Chance("signings.many", 1, 40) {
				k = c.PickInt("signings.manyN", 23, 24, 25) // the stack is a CBOR array: head-size step at 24
			}
			good := 0
			type kept struct{ got, want []byte }
			var earlierBlocks []kept
			type keptCopy struct {
				blk   integrityblock.IntegrityBlock
				bytes []byte
				hash  []byte
				n     int
			}
			var keptCopies []keptCopy
			allowFaults := c.Bool("allowHsmFaults")
			var fired []string
			for i := 0; i < k; i++ {
				tg := targets[c.Pick("target", nb)]
				data, hash, blk, ibs := tg.data, tg.hash, tg.blk, tg.ibs
				if c.Bool("secondSignerObject") {
					ibs = tg.ibs2
				}
				good = tg.good
				h := newHSM(c, fmt.Sprintf("hsm%d", i), allowFaults)
				ibs.SigningStrategy = h
				pub, perr := h.GetPublicKey()
				if perr != nil {
					continue // the caller cannot even start
				}
				var ownKey ed25519.PrivateKey
				if h.fault == "" && c.Chance("libraryStrategy", 1, 3) {
					// the library's own key-holding strategy, given the caller's copy of the private
					// key, which the caller wipes as soon as the signing call has returned
					ownKey = append(ed25519.PrivateKey(nil), h.priv...)
					st := integrityblock.NewParsedEd25519KeySigningStrategy(ownKey)
					ibs.SigningStrategy = st
					pub, _ = st.GetPublicKey()
					c.Probe("library strategy; private key wiped after the call")
				}
				attrs := extraAttrs(c, pub)
				beforeStack := append([]*integrityblock.IntegritySignature(nil), blk.SignatureStack...)
				var err error
				pi := c.Guard("SignAndAddNewSignature", func() { err = ibs.SignAndAddNewSignature(pub, attrs) })
				if c.Oracle("C10", "C07") && pi != nil {
					c.CheckTotal("SignAndAddNewSignature", len(data), pi, 0)
				}
				for j := range ownKey {
					ownKey[j] = 0
				}
				c.Event("signing %d fault=%q -> err=%v stack=%d", i, h.fault, err != nil, len(blk.SignatureStack))
				signatureBad := h.fault == "sign-error" || h.fault == "flip-bit" || h.fault == "other-key" || h.fault == "pubkey-mismatch" || h.fault == "truncated-sig" || h.fault == "trailing-bytes" || h.fault == "pubkey-flaps"
				if h.fault != "" {
					fired = append(fired, h.fault)
				}
				if !c.Oracle("C07") {
					if err == nil {
						good++
						tg.good = good
					}
					continue
				}
				if signatureBad {
					if err == nil {
						c.Violation("bad-signature-accepted", "SignAndAddNewSignature", "signing strategy fault %q: the signature does not verify under the public key being recorded, yet no error was returned", h.fault)
					}
					if len(blk.SignatureStack) != len(beforeStack) {
						c.Violation("stack-changed-on-error", "SignAndAddNewSignature", "error returned but the signature stack went from %d to %d entries", len(beforeStack), len(blk.SignatureStack))
					}
					continue
				}
				if err != nil {
					c.Violation("sign-error", "SignAndAddNewSignature", "honest strategy refused: %v", err)
				}
				good++
				tg.good = good
				if len(blk.SignatureStack) != len(beforeStack)+1 {
					c.Violation("stack-growth", "SignAndAddNewSignature", "stack went from %d to %d entries", len(beforeStack), len(blk.SignatureStack))
				}
				for j, s := range beforeStack {
					if blk.SignatureStack[j+1] != s {
						c.Violation("not-prepended", "SignAndAddNewSignature", "older signature %d moved: the new signature must be first", j)
					}
				}
				bb, berr := blk.CborBytes()
				if berr != nil {
					c.Violation("cbor-error", "IntegrityBlock.CborBytes", "%v", berr)
				}
				checkBlock(c, bb, hash, good, "after signing")
				if c.Chance("annotateInPlace", 1, 6) {
					// the caller annotates the newest signature's attribute map in place (on a copy of
					// the entry, so that the real block stays as signed) and serializes that variant:
					// the bytes are those of the annotated block, not of anything remembered
					top := *blk.SignatureStack[0]
					top.SignatureAttributes = integrityblock.SignatureAttributesMap{}
					for k, v := range blk.SignatureStack[0].SignatureAttributes {
						top.SignatureAttributes[k] = v
					}
					top.SignatureAttributes["zz-note"] = []byte("annotated")
					variant := *blk
					variant.SignatureStack = append([]*integrityblock.IntegritySignature{&top}, blk.SignatureStack[1:]...)
					vb, verr := variant.CborBytes()
					if stack, _, derr := refib.DecodeBlock(bb); derr == nil && len(stack) > 0 {
						m := map[string][]byte{"zz-note": []byte("annotated")}
						for k, v := range stack[0].Attrs {
							m[k] = v
						}
						stack[0].Attrs = m
						if verr != nil || !bytes.Equal(vb, refib.EncodeBlock(stack)) {
							c.Violation("stale-output", "IntegrityBlock.CborBytes", "a block whose newest entry was annotated serializes to bytes that are not the annotated block's (err=%v)", verr)
						}
					}
				}
				earlierBlocks = append(earlierBlocks, kept{bb, append([]byte(nil), bb...)})
				keptCopies = append(keptCopies, keptCopy{*blk, append([]byte(nil), bb...), hash, good})
			}
			if c.Oracle("C07") {
				// copies of the block kept by the caller (struct copies: they share the signature
				// stack) must still be the blocks they were, whatever was signed afterwards
				for i, k := range keptCopies {
					bb, err := k.blk.CborBytes()
					if err != nil || !bytes.Equal(bb, k.bytes) {
						c.Violation("kept-block-changed", "SignAndAddNewSignature", "a copy of the block kept after signing %d serializes differently after the later signings", i)
					}
				}
				for i, k := range earlierBlocks {
					if !bytes.Equal(k.got, k.want) {
						c.Violation("result-changed-later", "IntegrityBlock.CborBytes", "the block bytes returned after signing %d were modified by later calls", i)
					}
				}
			}
			c.Outcome(fmt.Sprintf("nt:signed%d", good))
			c.Sig("k%d/%v", k, fired)
		})
	})
}

// ---- command level: SignWithIntegrityBlock on real scratch files ---------------------------------

var stdoutFile *os.File

func captureStdout(fn func()) string {
	if stdoutFile == nil {
		f, err := os.CreateTemp(".", "stdout-*")
		if err != nil {
			panic(err)
		}
		stdoutFile = f
	}
	stdoutFile.Truncate(0)
	stdoutFile.Seek(0, io.SeekStart)
	old := os.Stdout
	os.Stdout = stdoutFile
	defer func() { os.Stdout = old }()
	fn()
	os.Stdout = old
	stdoutFile.Seek(0, io.SeekStart)
	b, _ := io.ReadAll(stdoutFile)
	return string(b)
}

func TestCommand(t *testing.T) {
	rapid.Check(t, func(t *rapid.T) {
		core.Run(t, "ib/command", func(c *core.Ctx) {
			data, kind := bundleFile(c)
			h := newHSM(c, "hsm", c.Bool("allowHsmFaults"))
			in, err := os.CreateTemp(".", "in-*")
			if err != nil {
				panic(err)
			}
			defer os.Remove(in.Name())
			defer in.Close()
			in.Write(data)
			if c.Chance("in.unlinked", 1, 5) {
				// the scratch-file idiom: the input's name is gone (or will mean another file)
				// while the handle stays open; everything must go through the handle
				os.Remove(in.Name())
				if c.Bool("in.nameReused") {
					os.WriteFile(in.Name(), c.Bytes("in.otherFile", 0, 50), 0644)
				}
				c.Fault("input-path-no-longer-names-the-open-file")
			}
			outKind := c.PickStr("out.kind", "file", "file", "file", "dev-full", "read-only")
			var out *os.File
			outName := in.Name() + ".out"
			switch outKind {
			case "file":
				out, err = os.Create(outName)
			case "dev-full":
				out, err = os.OpenFile("/dev/full", os.O_WRONLY, 0)
				c.Fault("output-device-full")
			case "read-only":
				os.WriteFile(outName, nil, 0644)
				out, err = os.Open(outName)
				c.Fault("output-read-only")
			}
			if err != nil {
				panic(err)
			}
			defer os.Remove(outName)
			defer out.Close()
			var serr error
			var printed string
			pi := c.Guard("SignWithIntegrityBlock", func() {
				printed = captureStdout(func() { serr = signbundlecmd.SignWithIntegrityBlock(in, out, h) })
			})
			if c.Oracle("C10", "C07") && pi != nil {
				c.CheckTotal("SignWithIntegrityBlock", len(data), pi, 0)
			}
			c.Event("file %d bytes kind=%s hsm=%q out=%s -> err=%v", len(data), kind, h.fault, outKind, serr != nil)
			c.Sig("%s/%s/%s", kind, h.fault, outKind)
			if pi != nil || !c.Oracle("C07") {
				return
			}
			written, _ := os.ReadFile(outName)
			mustFail := kind != "own-length" || h.fault != "" || outKind != "file"
			if mustFail {
				if serr == nil {
					c.Violation("no-error", "SignWithIntegrityBlock", "file kind %s, strategy fault %q, output %s: signing reported success", kind, h.fault, outKind)
				}
				if outKind == "file" && len(written) != 0 {
					c.Violation("output-on-error", "SignWithIntegrityBlock", "error returned but %d bytes were written to the output", len(written))
				}
				c.Outcome("nt:refused")
				return
			}
			if serr != nil {
				c.Violation("sign-error", "SignWithIntegrityBlock", "honest signing of a well-formed file failed: %v", serr)
			}
			if !bytes.HasSuffix(written, data) {
				c.Violation("bundle-bytes-touched", "SignWithIntegrityBlock", "the output does not end with the untouched original file bytes")
			}
			block := written[:len(written)-len(data)]
			sum := sha512.Sum512(data)
			stack := checkBlock(c, block, sum[:], 1, "SignWithIntegrityBlock")
			if !bytes.Equal(stack[0].Attrs["ed25519PublicKey"], h.pub) {
				c.Violation("wrong-key-recorded", "SignWithIntegrityBlock", "recorded public key is not the strategy's")
			}
			want := "Web Bundle ID: " + refib.WebBundleID(h.pub)
			if !strings.Contains(printed, want+"\n") {
				c.Violation("wrong-bundle-id", "SignWithIntegrityBlock", "printed %q, expected %q", strings.TrimSpace(printed), want)
			}
			// the signed file now carries a block: signing it again must be refused
			in2, _ := os.Open(outName)
			defer in2.Close()
			out2, _ := os.Create(outName + "2")
			defer os.Remove(outName + "2")
			defer out2.Close()
			var err2 error
			captureStdout(func() { err2 = signbundlecmd.SignWithIntegrityBlock(in2, out2, h) })
			if err2 == nil {
				c.Violation("resigned", "SignWithIntegrityBlock", "a file that already carries an integrity block was signed again")
			}
			if hb, herr := integrityblock.WebBundleHasIntegrityBlock(bytes.NewReader(written)); herr != nil || !hb {
				c.Violation("block-not-detected", "WebBundleHasIntegrityBlock", "signed output not recognised: %v %v", hb, herr)
			}
			c.Outcome("nt:signed")
		})
	})
}

// ---- file faults ----------------------------------------------------------------------------------

func TestFileFaults(t *testing.T) {
	rapid.Check(t, func(t *rapid.T) {
		core.Run(t, "ib/file-faults", func(c *core.Ctx) {
			data := c.Bytes("file.data", 8, 400)
			if c.Chance("file.big", 1, 6) {
				data = c.BytesN("file.data", 100000)
			}
			off := int64(c.PickInt("offset", 0, 0, 1, 5, len(data)))
			if c.Bool("offset.any") {
				off = int64(c.Int("offset.n", 0, len(data)))
			}
			plan := c.DrawReaderPlan("file", len(data), true)
			sr := c.NewReader("file", data, plan)
			// the file position is wherever the previous step left it
			sr.Seek(int64(c.Int("file.pos", 0, len(data))), io.SeekStart)
			if c.Chance("seek.fail", 1, 3) {
				sr.SeekFailAt = 2 // the Seek issued by ComputeWebBundleSha512 (ours above was the first)
			}
			var got []byte
			var err error
			pi, alloc := c.GuardAlloc("ComputeWebBundleSha512", func() { got, err = integrityblock.ComputeWebBundleSha512(sr, off) })
			if c.Oracle("C10", "C07") {
				c.CheckTotal("ComputeWebBundleSha512", len(data), pi, alloc)
			}
			want := sha512.Sum512(data[off:])
			c.Event("len=%d off=%d plan=%v seekFail=%v -> err=%v", len(data), off, plan, sr.SeekFailAt != 0, err != nil)
			if c.Oracle("C07") && pi == nil {
				if err == nil && !bytes.Equal(got, want[:]) {
					c.Violation("wrong-hash", "ComputeWebBundleSha512", "returned a hash that is not SHA-512 of the file from offset %d, with no error (seek failed=%v, read error at %d)", off, sr.SeekFailAt != 0, plan.ErrAt)
				}
				if err != nil && plan.ErrAt < 0 && sr.SeekFailAt == 0 {
					c.Violation("spurious-error", "ComputeWebBundleSha512", "error on a healthy file: %v", err)
				}
			}
			// integrity-block detection on whatever is on disk (C10)
			blob := data
			if c.Bool("detect.corrupt") {
				blob = c.CorruptBlob("detect.blob", data, []string{"truncate", "bitflip", "garbage-append"})
			}
			r2 := c.NewReader("file2", blob, c.DrawReaderPlan("file2", len(blob), true))
			var has bool
			pi2, alloc2 := c.GuardAlloc("WebBundleHasIntegrityBlock", func() { has, err = integrityblock.WebBundleHasIntegrityBlock(r2) })
			if c.Oracle("C10", "C07") {
				c.CheckTotal("WebBundleHasIntegrityBlock", len(blob), pi2, alloc2)
			}
			if c.Oracle("C07") && pi2 == nil && err == nil && len(blob) >= 10 {
				if has != bytes.Equal(blob[2:10], refib.Magic) {
					c.Violation("detection", "WebBundleHasIntegrityBlock", "reported %v", has)
				}
			}
			if err != nil {
				c.Outcome("error")
			} else {
				c.Outcome("ok")
			}
			c.Sig("m%d/e%d/s%v", plan.Mode, plan.ErrKind, sr.SeekFailAt != 0)
		})
	})
}

// TestObtain: ObtainIntegrityBlock on real files of every shape, including
// files shorter than the 8-byte trailer (C10: no panic) and the four cases of
// the trailing length.
func TestObtain(t *testing.T) {
	rapid.Check(t, func(t *rapid.T) {
		core.Run(t, "ib/obtain", func(c *core.Ctx) {
			var data []byte
			kind := "short"
			if c.Chance("short", 1, 4) {
				data = c.Bytes("short.data", 0, 7)
				c.Fault("file-shorter-than-trailer")
			} else {
				data, kind = bundleFile(c)
			}
			f, err := os.CreateTemp(".", "ob-*")
			if err != nil {
				panic(err)
			}
			defer os.Remove(f.Name())
			defer f.Close()
			f.Write(data)
			if c.Chance("file.unlinked", 1, 5) {
				os.Remove(f.Name())
				if c.Bool("file.nameReused") {
					os.WriteFile(f.Name(), c.Bytes("file.otherFile", 0, 50), 0644)
				}
				c.Fault("input-path-no-longer-names-the-open-file")
			}
			var blk *integrityblock.IntegrityBlock
			var off int64
			pi := c.Guard("ObtainIntegrityBlock", func() { blk, off, err = integrityblock.ObtainIntegrityBlock(f) })
			if c.Oracle("C10", "C07") {
				c.CheckTotal("ObtainIntegrityBlock", len(data), pi, 0)
			}
			if c.Oracle("C07") && pi == nil {
				if kind == "own-length" {
					if err != nil || blk == nil || off != 0 || len(blk.SignatureStack) != 0 {
						c.Violation("obtain", "ObtainIntegrityBlock", "unsigned bundle: err=%v off=%d", err, off)
					}
				} else if err == nil {
					c.Violation("obtain-no-error", "ObtainIntegrityBlock", "file kind %s accepted as an unsigned bundle", kind)
				}
			}
			c.Outcome(kind)
			c.Sig("%s", kind)
		})
	})
}

// TestBundleID: the Web Bundle ID and the key bytes afterwards.
func TestBundleID(t *testing.T) {
	rapid.Check(t, func(t *rapid.T) {
		core.Run(t, "ib/bundle-id", func(c *core.Ctx) {
			var pub ed25519.PublicKey
			if c.Bool("fixtureKey") {
				pub, _ = fixtures.Ed25519Key(c.Int("key", 0, 15))
			} else {
				pub = ed25519.PublicKey(c.BytesN("key.bytes", 32))
			}
			before := append([]byte(nil), pub...)
			var id string
			if pi := c.Guard("GetWebBundleId", func() { id = webbundleid.GetWebBundleId(pub) }); pi != nil {
				c.CheckTotal("GetWebBundleId", 32, pi, 0)
			}
			if c.Oracle("C07") {
				if id != refib.WebBundleID(before) {
					c.Violation("wrong-bundle-id", "GetWebBundleId", "got %q, expected %q", id, refib.WebBundleID(before))
				}
				if !bytes.Equal(pub, before) {
					c.Violation("key-modified", "GetWebBundleId", "the public key bytes changed")
				}
			}
			// history: a key store that loads key after key into ONE buffer and asks for each ID
			if c.Chance("reusedKeyBuffer", 1, 3) {
				buf := make(ed25519.PublicKey, 32)
				for i, n := 0, c.Int("reusedKeyBuffer.keys", 2, 4); i < n; i++ {
					k, _ := fixtures.Ed25519Key(c.Int("reusedKeyBuffer.key", 0, 15))
					copy(buf, k)
					var got string
					if pi := c.Guard("GetWebBundleId", func() { got = webbundleid.GetWebBundleId(buf) }); pi != nil {
						c.CheckTotal("GetWebBundleId", 32, pi, 0)
					}
					if c.Oracle("C07") && got != refib.WebBundleID(k) {
						c.Violation("wrong-bundle-id", "GetWebBundleId/reused-buffer", "key %d loaded into a reused buffer: got %q, expected %q", i, got, refib.WebBundleID(k))
					}
				}
				c.Probe("keys loaded into one reused buffer")
			}
			c.Outcome("nt:ok")
			c.Sig("%x", before[:2])
		})
	})
}

// TestCommandFlags: the flag-driven entry point of `sign-bundle
// integrity-block -i IN -o OUT`, with an output path that does not exist yet,
// or already holds an older (shorter or longer) file.
func TestCommandFlags(t *testing.T) {
	rapid.Check(t, func(t *rapid.T) {
		core.Run(t, "ib/command-flags", func(c *core.Ctx) {
			data, kind := bundleFile(c)
			h := newHSM(c, "hsm", false)
			in, err := os.CreateTemp(".", "fin-*")
			if err != nil {
				panic(err)
			}
			in.Write(data)
			in.Close()
			defer os.Remove(in.Name())
			outName := in.Name() + ".out"
			defer os.Remove(outName)
			prior := c.PickStr("out.prior", "absent", "shorter", "longer", "much-longer")
			switch prior {
			case "shorter":
				os.WriteFile(outName, c.Bytes("out.old", 1, 40), 0644)
			case "longer":
				os.WriteFile(outName, c.BytesN("out.old", len(data)+c.Int("out.extra", 200, 400)), 0644)
			case "much-longer":
				os.WriteFile(outName, c.BytesN("out.old", len(data)+5000), 0644)
			}
			var serr error
			pi := c.Guard("SignWithIntegrityBlockWithCmdFlags", func() {
				captureStdout(func() { serr = signbundlecmd.VerifSignWithFlags(in.Name(), outName, h) })
			})
			if pi != nil {
				if c.Oracle("C10", "C07") {
					c.CheckTotal("SignWithIntegrityBlockWithCmdFlags", len(data), pi, 0)
				}
				return
			}
			c.Event("file kind=%s prior output=%s -> err=%v", kind, prior, serr != nil)
			c.Sig("%s/%s", kind, prior)
			if !c.Oracle("C07") {
				return
			}
			if kind != "own-length" {
				if serr == nil {
					c.Violation("no-error", "SignWithIntegrityBlockWithCmdFlags", "file kind %s: signing reported success", kind)
				}
				c.Outcome("nt:refused")
				return
			}
			if serr != nil {
				c.Violation("sign-error", "SignWithIntegrityBlockWithCmdFlags", "honest signing failed: %v", serr)
			}
			written, _ := os.ReadFile(outName)
			if !bytes.HasSuffix(written, data) {
				c.Violation("bundle-bytes-touched", "SignWithIntegrityBlockWithCmdFlags", "the output (%d bytes, prior output %s) does not end with the untouched original file bytes", len(written), prior)
			}
			sum := sha512.Sum512(data)
			checkBlock(c, written[:len(written)-len(data)], sum[:], 1, "SignWithIntegrityBlockWithCmdFlags")
			c.Outcome("nt:signed")
		})
	})
}

// TestConcurrentSigners: several callers, each signing its OWN bundle with its own
// block, signer object and remote signing party, run as cooperative tasks; a
// caller parks while its signing party works (before and after it produced the
// signature, and at every public-key request) and the next caller to run is a
// draw. Every block must afterwards be exactly what its caller would have got
// alone: each listed signature verifies over that caller's data-to-be-signed.
func TestConcurrentSigners(t *testing.T) {
	rapid.Check(t, func(t *rapid.T) {
		core.Run(t, "ib/concurrent-signers", func(c *core.Ctx) {
			n := c.Int("callers", 2, 3)
			type caller struct {
				hash   []byte
				blk    *integrityblock.IntegrityBlock
				ibs    *integrityblock.IntegrityBlockSigner
				hs     []*hsm
				attrs  []integrityblock.SignatureAttributesMap
				errs   []error
				blocks [][]byte
			}
			cs := make([]*caller, n)
			sameSize := c.Bool("sameSizedInputs")
			for i := range cs {
				data := c.Bytes(fmt.Sprintf("file%d.data", i), 8, 200)
				sum := sha512.Sum512(data)
				cl := &caller{hash: sum[:], blk: &integrityblock.IntegrityBlock{Magic: integrityblock.IntegrityBlockMagic, Version: integrityblock.VersionB1}}
				cl.ibs = &integrityblock.IntegrityBlockSigner{WebBundleHash: cl.hash, IntegrityBlock: cl.blk}
				k := c.Int(fmt.Sprintf("caller%d.signings", i), 1, 3)
				for j := 0; j < k; j++ {
					h := newHSM(c, fmt.Sprintf("hsm%d.%d", i, j), false)
					cl.hs = append(cl.hs, h)
					if sameSize {
						cl.attrs = append(cl.attrs, integrityblock.SignatureAttributesMap{integrityblock.Ed25519publicKeyAttributeName: []byte(h.pub)})
					} else {
						cl.attrs = append(cl.attrs, extraAttrs(c, h.pub))
					}
				}
				cs[i] = cl
			}
			tasks := make([]func(yield func()), n)
			for i := range cs {
				cl := cs[i]
				tasks[i] = func(yield func()) {
					for j, h := range cl.hs {
						h.yield = yield
						cl.ibs.SigningStrategy = h
						pub, _ := h.GetPublicKey()
						err := cl.ibs.SignAndAddNewSignature(pub, cl.attrs[j])
						cl.errs = append(cl.errs, err)
						yield()
						bb, _ := cl.blk.CborBytes()
						cl.blocks = append(cl.blocks, bb)
					}
				}
			}
			sched, panics := c.RunTasks("sched", tasks)
			c.Event("schedule %s", sched)
			c.Fault("interleaved-callers")
			for i, cl := range cs {
				if panics[i] != nil {
					if c.Oracle("C10", "C07") {
						c.Violation("panic", "SignAndAddNewSignature(concurrent)", "caller %d panicked: %v", i, panics[i])
					}
					continue
				}
				if !c.Oracle("C07") {
					continue
				}
				for j, err := range cl.errs {
					if err != nil {
						c.Violation("sign-error", "SignAndAddNewSignature(concurrent)", "caller %d signing %d: honest strategy refused while other callers were signing their own bundles: %v", i, j, err)
					}
				}
				for j, bb := range cl.blocks {
					checkBlock(c, bb, cl.hash, j+1, fmt.Sprintf("concurrent-callers"))
				}
			}
			c.Outcome("nt:ok")
			c.Sig("n%d/%s", n, sched)
		})
	})
}
