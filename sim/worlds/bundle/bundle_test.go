// World W-BUNDLE: repository bundle writer -> disk -> repository bundle
// reader, with histories of write/read cycles, storage faults, writer faults
// and a Byzantine re-encoder. Properties C03, C04, C05, C10, C19 (bundle part).
package bundle

import (
	"os"
	"runtime"
	"strings"
	"bytes"
	"fmt"
	"io"
	"net/http"
	"net/url"
	"strconv"
	"testing"

	"github.com/WICG/webpackage/go/bundle"
	"github.com/WICG/webpackage/go/bundle/version"
	"pgregory.net/rapid"
	"verifsim/core"
	"verifsim/gen"
	"verifsim/ref/refbundle"
)

func TestMain(m *testing.M) { core.Main(m) }

// ---- helpers -----------------------------------------------------------------

type written struct {
	data   []byte
	n      int64
	err    error
	w      *core.SimWriter
	panicI *core.PanicInfo
}

func writeBundle(c *core.Ctx, b *bundle.Bundle, plan core.WriterPlan) written {
	var res written
	if c.Chance("disk.callersCountingWriter", 1, 6) {
		// the caller's destination is itself an exported CountingWriter through which it
		// has already written a preamble: the bundle's count and trailing length are those
		// of the bundle, and faults are positioned relative to the bundle's first byte
		pre := c.Bytes("disk.preamble", 0, 40)
		if plan.FailAt >= 0 {
			plan.FailAt += len(pre)
		}
		w := c.NewWriter("disk", plan)
		cw := bundle.NewCountingWriter(w)
		if plan.Chunk > 0 {
			for rest := pre; len(rest) > 0; { // (a diligent caller on a device that takes Chunk bytes per call)
				k := len(rest)
				if k > plan.Chunk {
					k = plan.Chunk
				}
				cw.Write(rest[:k])
				rest = rest[k:]
			}
		} else {
			cw.Write(pre)
		}
		res.panicI = c.Guard("Bundle.WriteTo", func() { res.n, res.err = b.WriteTo(cw) })
		res.w = core.Unwrap(w)
		res.data = res.w.Accepted[len(pre):]
		c.Probe("destination is the caller's CountingWriter behind a preamble")
		return res
	}
	w := c.NewWriter("disk", plan)
	res.panicI = c.Guard("Bundle.WriteTo", func() { res.n, res.err = b.WriteTo(w) })
	res.w = core.Unwrap(w)
	res.data = res.w.Accepted
	return res
}

func readBundle(c *core.Ctx, data []byte, plan core.ReaderPlan) (*bundle.Bundle, error, *core.PanicInfo, uint64, *core.SimReader) {
	if len(data) > 300000 && (plan.Mode == 3 || plan.Chunk < 512) {
		// (megabyte files are not delivered byte by byte: that costs seconds and tests nothing new)
		plan.Mode, plan.Chunk = 1, 4096
	}
	sr := c.NewReader("disk", data, plan)
	src, _ := c.WrapSource("disk", sr)
	var b *bundle.Bundle
	var err error
	pi, alloc := c.GuardAlloc("bundle.Read", func() { b, err = bundle.Read(src) })
	return b, err, pi, alloc, sr
}

// sameAsRef compares one repository exchange with one reference exchange.
func sameAsRef(ex *bundle.Exchange, rx refbundle.Exchange) string {
	ru, err := url.Parse(rx.URL)
	if err != nil {
		return "" // the reader must have rejected; caller handles
	}
	if ex.Request.URL == nil || ex.Request.URL.String() != ru.String() {
		return fmt.Sprintf("URL %v, file has %q", ex.Request.URL, rx.URL)
	}
	st, _ := strconv.Atoi(rx.Status)
	if ex.Response.Status != st {
		return fmt.Sprintf("status %d, file has %q", ex.Response.Status, rx.Status)
	}
	if len(ex.Response.Header) != len(rx.Headers) {
		return fmt.Sprintf("%d header fields, file has %d", len(ex.Response.Header), len(rx.Headers))
	}
	for _, hv := range rx.Headers {
		got := ex.Response.Header[http.CanonicalHeaderKey(hv[0])]
		if len(got) != 1 || got[0] != hv[1] {
			return fmt.Sprintf("header %q = %q, file has %q", hv[0], got, hv[1])
		}
	}
	if !bytes.Equal(ex.Response.Body, rx.Body) {
		return fmt.Sprintf("body %s, file has %s", core.Hex(ex.Response.Body), core.Hex(rx.Body))
	}
	return ""
}

// sameAsModel compares a read-back bundle with the logical model (C03).
func sameAsModel(c *core.Ctx, rb *bundle.Bundle, lb *gen.LBundle, site string) {
	if string(rb.Version) != lb.Version {
		c.Violation("roundtrip-version", site, "version %q, wrote %q", rb.Version, lb.Version)
	}
	switch {
	case lb.Primary == "" && rb.PrimaryURL != nil:
		c.Violation("roundtrip-primary", site, "primary URL %v appeared", rb.PrimaryURL)
	case lb.Primary != "" && (rb.PrimaryURL == nil || rb.PrimaryURL.String() != lb.Primary):
		c.Violation("roundtrip-primary", site, "primary URL %v, wrote %q", rb.PrimaryURL, lb.Primary)
	}
	switch {
	case lb.Manifest == "" && rb.ManifestURL != nil:
		c.Violation("roundtrip-manifest", site, "manifest URL %v appeared", rb.ManifestURL)
	case lb.Manifest != "" && (rb.ManifestURL == nil || rb.ManifestURL.String() != lb.Manifest):
		c.Violation("roundtrip-manifest", site, "manifest URL %v, wrote %q", rb.ManifestURL, lb.Manifest)
	}
	// signatures section
	if (lb.Sigs == nil) != (rb.Signatures == nil) {
		c.Violation("roundtrip-signatures", site, "signatures present=%v, wrote present=%v", rb.Signatures != nil, lb.Sigs != nil)
	}
	if lb.Sigs != nil {
		want := lb.ToRepo().Signatures
		got := rb.Signatures
		if len(got.Authorities) != len(want.Authorities) || len(got.VouchedSubsets) != len(want.VouchedSubsets) {
			c.Violation("roundtrip-signatures", site, "authorities %d/%d vouched %d/%d", len(got.Authorities), len(want.Authorities), len(got.VouchedSubsets), len(want.VouchedSubsets))
		}
		for i := range want.Authorities {
			g, w := got.Authorities[i], want.Authorities[i]
			if !bytes.Equal(g.Cert.Raw, w.Cert.Raw) || !bytes.Equal(g.OCSPResponse, w.OCSPResponse) || !bytes.Equal(g.SCTList, w.SCTList) {
				c.Violation("roundtrip-signatures", site, "authority %d differs", i)
			}
			if (g.OCSPResponse == nil) != (w.OCSPResponse == nil) || (g.SCTList == nil) != (w.SCTList == nil) {
				c.Violation("roundtrip-signatures", site, "authority %d: presence of ocsp / sct changed (ocsp present %v, wrote %v; sct present %v, wrote %v)", i, g.OCSPResponse != nil, w.OCSPResponse != nil, g.SCTList != nil, w.SCTList != nil)
			}
		}
		for i := range want.VouchedSubsets {
			g, w := got.VouchedSubsets[i], want.VouchedSubsets[i]
			if g.Authority != w.Authority || !bytes.Equal(g.Sig, w.Sig) || !bytes.Equal(g.Signed, w.Signed) {
				c.Violation("roundtrip-signatures", site, "vouched subset %d differs", i)
			}
		}
	}
	// exchanges, grouped by URL in read order
	got := map[string][]*bundle.Exchange{}
	for _, ex := range rb.Exchanges {
		u := ex.Request.URL.String()
		got[u] = append(got[u], ex)
	}
	if len(got) != len(lb.Order) {
		c.Violation("roundtrip-urls", site, "%d distinct URLs read back, %d written", len(got), len(lb.Order))
	}
	total := 0
	for _, u := range lb.URLs() {
		want := lb.Order[u]
		g := got[u]
		total += len(want)
		if len(g) != len(want) {
			c.Violation("roundtrip-count", site, "URL %q: %d representations read back, %d expected (dropped or duplicated)", u, len(g), len(want))
		}
		for i, idx := range want {
			le := lb.Exchanges[idx]
			ex := g[i]
			if ex.Response.Status != le.Resp.Status {
				c.Violation("roundtrip-status", site, "URL %q #%d: status %d, wrote %d", u, i, ex.Response.Status, le.Resp.Status)
			}
			if !bytes.Equal(ex.Response.Body, le.Resp.Body) {
				c.Violation("roundtrip-body", site, "URL %q #%d: body %s, wrote %s (cross-attributed or altered; row-major order for variants)", u, i, core.Hex(ex.Response.Body), core.Hex(le.Resp.Body))
			}
			canon := le.Resp.Canon()
			if len(ex.Response.Header) != len(canon) {
				c.Violation("roundtrip-headers", site, "URL %q #%d: %d header fields, wrote %d", u, i, len(ex.Response.Header), len(canon))
			}
			for _, k := range core.SortedKeys(canon) {
				gv := ex.Response.Header[http.CanonicalHeaderKey(k)]
				if len(gv) != 1 || gv[0] != canon[k] {
					c.Violation("roundtrip-headers", site, "URL %q #%d: header %q = %q, wrote %q", u, i, k, gv, canon[k])
				}
			}
		}
	}
	if len(rb.Exchanges) != total {
		c.Violation("roundtrip-count", site, "%d exchanges read back, %d expected", len(rb.Exchanges), total)
	}
}

// earlierRefusedWrite is a piece of history: an unrelated bundle whose header map
// the writer must refuse (keys differing only in letter case, or a pseudo-header
// name) was handed to the serializers earlier in this process.
func earlierRefusedWrite(c *core.Ctx) {
	if !c.Chance("earlierRefusedWrite", 1, 4) {
		return
	}
	n := c.Int("earlierRefusedWrite.times", 1, 3)
	for i := 0; i < n; i++ {
		h := http.Header{"Content-Type": {"text/plain"}, "X-Early": {"a", "b"}}
		switch c.Pick("earlierRefusedWrite.kind", 3) {
		case 0:
			h["x-early"] = []string{"c"}
		case 1:
			h[":status"] = []string{"200"}
		default:
			h["X-EARLY"] = []string{"d"}
			h["content-type"] = []string{"text/html"}
		}
		u, _ := url.Parse("https://early.example/refused")
		b := &bundle.Bundle{Version: version.Version(c.PickStr("earlierRefusedWrite.version", "b1", "b2")), PrimaryURL: u,
			Exchanges: []*bundle.Exchange{{Request: bundle.Request{URL: u}, Response: bundle.Response{Status: 200, Header: h, Body: []byte("early")}}}}
		var err error
		if c.Bool("earlierRefusedWrite.viaHeaderSha256") {
			c.Guard("Response.HeaderSha256", func() { _, err = b.Exchanges[0].Response.HeaderSha256() })
		} else {
			c.Guard("Bundle.WriteTo", func() { _, err = b.WriteTo(io.Discard) })
		}
		c.Event("earlier write of a header map that must be refused: err=%v", err != nil)
	}
	c.Probe("history: an earlier serialization was refused")
}

func drawWriterPlanOK(c *core.Ctx) core.WriterPlan {
	return core.WriterPlan{FailAt: -1, ReaderFrom: c.Bool("disk.readerFrom")}
}

// ---- C03 / C04: clean configuration with histories ----------------------------

func TestClean(t *testing.T) {
	rapid.Check(t, func(t *rapid.T) {
		core.Run(t, "bundle/clean", func(c *core.Ctx) {
			lb := gen.DrawBundle(c, 6, true)
			c.Event("%s", lb.Describe())
			earlierRefusedWrite(c)
			wp := drawWriterPlanOK(c)
			if len(lb.Exchanges) > 0 && !lb.ExpectWriteError && c.Chance("bundle.nonUTF8URL", 1, 30) {
				// a URL that net/url accepts but that is not valid UTF-8 cannot be a CBOR text
				// string: the writer has to refuse it (the unchanged tree panics, which is
				// outside every claimed property and counted as a refusal here); success with
				// a malformed file is the violation
				i := c.Pick("bundle.nonUTF8At", len(lb.Exchanges))
				u := lb.Exchanges[i].URL
				if _, multi := lb.Order[u]; multi && len(lb.Order[u]) == 1 {
					nu := u + "?q=\xff"
					if c.Bool("bundle.nonUTF8hasQuery") {
						nu = u + "&q=\xff\xfe"
					}
					delete(lb.Order, u)
					lb.Order[nu] = []int{i}
					lb.Exchanges[i].URL = nu
					c.Probe("URL that is not valid UTF-8")
					wr := writeBundle(c, lb.ToRepo(), wp)
					if wr.panicI == nil && wr.err == nil {
						checkWellFormed(c, wr, "non-UTF-8 URL")
						if c.Oracle("C03") {
							if _, rerr, _, _, _ := readBundle(c, wr.data, core.ReaderPlan{ErrAt: -1}); rerr != nil {
								c.Violation("read-error", "bundle.Read", "writer accepted a non-UTF-8 URL and produced a file the reader rejects: %v", rerr)
							}
						}
					}
					c.Outcome("nt:non-utf8-url")
					return
				}
			}
			if !lb.ExpectWriteError && c.Chance("bundle.oddInput", 1, 25) {
				// inputs the writer may refuse (the unchanged tree refuses the second and panics on
				// the first, which is outside every claimed property and counted as a refusal):
				// whatever it does accept must come out well-formed and readable
				b := lb.ToRepo()
				what := "b1 bundle without a primary URL"
				twinValue := ""
				if lb.Version == "b1" && c.Bool("bundle.oddInput.noPrimary") {
					b.PrimaryURL = nil
				} else if len(b.Exchanges) > 0 {
					// header names that differ only in letter case and carry the SAME value
					what = "case-colliding header names with equal values"
					h := b.Exchanges[c.Pick("bundle.oddInput.at", len(b.Exchanges))].Response.Header
					h["X-Same"] = []string{"same"}
					twinValue = "same"
					if c.Bool("bundle.oddInput.otherValue") {
						twinValue = "other"
						what = "case-colliding header names with different values"
					}
					h[c.PickStr("bundle.oddInput.twin", "x-same", "X-SAME", "x-Same")] = []string{twinValue}
					if c.Bool("bundle.oddInput.pseudo") {
						h[":status"] = []string{"200"}
					}
				} else {
					what = "nothing"
				}
				c.Probe("input the writer may refuse: " + what)
				w := c.NewWriter("disk", wp)
				var n int64
				var werr error
				pi := c.Guard("Bundle.WriteTo", func() { n, werr = b.WriteTo(w) })
				if pi == nil && werr == nil && what != "nothing" {
					wr := written{data: core.Unwrap(w).Accepted, n: n}
					checkWellFormed(c, wr, what)
					if c.Oracle("C03") {
						rb2, rerr, _, _, _ := readBundle(c, wr.data, core.ReaderPlan{ErrAt: -1})
						if rerr != nil {
							c.Violation("read-error", "bundle.Read", "writer accepted %s and produced a file the reader rejects: %v", what, rerr)
						}
						if twinValue != "" && rb2 != nil {
							// nothing dropped: if the writer took both lines, both values are in the file
							found := false
							for _, ex := range rb2.Exchanges {
								if v := strings.Join(ex.Response.Header["X-Same"], ","); strings.Contains(v, "same") && strings.Contains(v, twinValue) && (twinValue != "same" || strings.Count(v, "same") >= 2) {
									found = true
								}
							}
							if !found {
								c.Violation("roundtrip-headers", "odd-input", "writer accepted %s, but the file does not hold both values", what)
							}
						}
					}
				}
				c.Outcome("nt:odd-input")
				return
			}
			wr := writeBundle(c, lb.ToRepo(), wp)
			if wr.panicI != nil {
				c.CheckTotal("Bundle.WriteTo", 0, wr.panicI, 0)
			}
			c.Sig("%s/ex%d/sig%v/rf%v", lb.Version, len(lb.Exchanges), lb.Sigs != nil, wp.ReaderFrom)
			if lb.ExpectWriteError {
				if wr.err == nil && c.Oracle("C03") {
					c.Violation("variants-not-refused", "Bundle.WriteTo", "incomplete or overlapping variant coverage was written without error (%s)", lb.Describe())
				}
				c.Outcome("nt:write-refused")
				return
			}
			if wr.err != nil {
				if c.Oracle("C03", "C04") {
					c.Violation("write-error", "Bundle.WriteTo", "writer refused a valid bundle: %v (%s)", wr.err, lb.Describe())
				}
				return
			}
			checkWellFormed(c, wr, "cycle1")
			cycles := c.Int("cycles", 1, 3)
			data := wr.data
			var prev []byte
			var firstRead *bundle.Bundle
			if c.Chance("reuseOneBuffer", 1, 4) && !lb.MultiKey {
				reuseBufferCycles(c, lb, cycles+1)
				c.Outcome("nt:ok-reused-buffer")
				return
			}
			for cy := 1; cy <= cycles; cy++ {
				plan := c.DrawReaderPlan("disk.read", len(data), false)
				rb, err, pi, _, _ := readBundle(c, data, plan)
				if pi != nil {
					c.CheckTotal("bundle.Read", len(data), pi, 0)
				}
				if err != nil {
					if c.Oracle("C03") {
						c.Violation("read-error", "bundle.Read", "reader rejected the writer's output in cycle %d: %v", cy, err)
					}
					return
				}
				if c.Oracle("C03") {
					if cy == 1 || !lb.MultiKey {
						sameAsModel(c, rb, lb, fmt.Sprintf("cycle%d", cy))
					}
				}
				if cy == 1 {
					firstRead = rb
				}
				if cy == cycles || lb.MultiKey {
					break
				}
				// re-serialize what was read
				wr2 := writeBundle(c, rb, drawWriterPlanOK(c))
				if wr2.panicI != nil {
					c.CheckTotal("Bundle.WriteTo", 0, wr2.panicI, 0)
				}
				if wr2.err != nil {
					if c.Oracle("C03") {
						c.Violation("rewrite-error", "Bundle.WriteTo", "re-serializing the read bundle failed in cycle %d: %v", cy, wr2.err)
					}
					return
				}
				checkWellFormed(c, wr2, fmt.Sprintf("cycle%d", cy+1))
				if prev != nil && c.Oracle("C03") && !bytes.Equal(prev, wr2.data) {
					c.Violation("no-fixpoint", "Bundle.WriteTo", "cycle %d bytes differ from cycle %d bytes (%d vs %d bytes)", cy+1, cy, len(wr2.data), len(prev))
				}
				if prev != nil {
					c.Probe("fixpoint compared (cycle >= 3)")
				}
				prev = wr2.data
				data = wr2.data
			}
			// history: the first read's result is still the model after the later writes and reads
			if c.Oracle("C03") && firstRead != nil && cycles > 1 {
				sameAsModel(c, firstRead, lb, "first-read-after-later-cycles")
			}
			if len(lb.Exchanges) > 0 && c.Chance("editInPlace", 1, 4) {
				editInPlace(c, lb)
			}
			c.Outcome("nt:ok")
		})
	})
}

// editInPlace: the caller keeps its Bundle object, writes it, changes one thing IN
// PLACE (a body, a header value, a status, the primary URL) and writes it again:
// the second output is that of the changed bundle - byte for byte what a freshly
// built object with the same content yields.
func editInPlace(c *core.Ctx, lb *gen.LBundle) {
	b := lb.ToRepo()
	var w1, w2, w3 bytes.Buffer
	var e1 error
	c.Guard("Bundle.WriteTo", func() { _, e1 = b.WriteTo(&w1) })
	if e1 != nil {
		return
	}
	lb2 := *lb
	lb2.Exchanges = append([]gen.LExchange(nil), lb.Exchanges...)
	var single []int
	for i, e := range lb.Exchanges {
		if len(lb.Order[e.URL]) == 1 {
			single = append(single, i)
		}
	}
	if len(single) == 0 {
		return
	}
	i := single[c.Pick("editInPlace.at", len(single))]
	what := c.PickStr("editInPlace.what", "body", "header-value", "status", "header-added")
	r := lb2.Exchanges[i].Resp
	r.Headers = append([]gen.HV(nil), r.Headers...)
	switch what {
	case "body":
		r.Body = append(append([]byte(nil), r.Body...), []byte("+edited")...)
		b.Exchanges[i].Response.Body = append(b.Exchanges[i].Response.Body, []byte("+edited")...)
	case "status":
		r.Status = 200 + (r.Status+1)%300
		b.Exchanges[i].Response.Status = r.Status
	default:
		r.Headers = append(r.Headers, gen.HV{Name: "X-Edited", Value: "later"})
		b.Exchanges[i].Response.Header["X-Edited"] = []string{"later"}
	}
	lb2.Exchanges[i].Resp = r
	var e2, e3 error
	c.Guard("Bundle.WriteTo", func() { _, e2 = b.WriteTo(&w2) })
	c.Guard("Bundle.WriteTo", func() { _, e3 = lb2.ToRepo().WriteTo(&w3) })
	if c.Oracle("C03", "C04") && ((e2 != nil) != (e3 != nil) || (e2 == nil && !bytes.Equal(w2.Bytes(), w3.Bytes()))) {
		c.Violation("stale-output", "Bundle.WriteTo", "a Bundle object edited in place (%s of exchange %d) and written again yields bytes that are not the edited bundle's (err %v / %v, %d vs %d bytes)", what, i, e2, e3, w2.Len(), w3.Len())
	}
	c.Probe("bundle object edited in place between two writes")
}

// reuseBufferCycles runs write/read cycles the way a tool does with a single
// bytes.Buffer as destination and source, keeping every read result and
// checking all of them again at the end.
func reuseBufferCycles(c *core.Ctx, lb *gen.LBundle, cycles int) {
	var buf bytes.Buffer
	cur := lb.ToRepo()
	var results []*bundle.Bundle
	var models []*gen.LBundle
	for cy := 1; cy <= cycles; cy++ {
		if cy > 1 && c.Bool("reuse.otherBundle") {
			// the tool goes on to ANOTHER bundle through the same buffer: what it reads back is
			// that bundle, not whatever an earlier cycle left behind in the buffer
			if alt := gen.DrawBundle(c, 3, true); !alt.ExpectWriteError && !alt.MultiKey {
				lb, cur = alt, alt.ToRepo()
				c.Probe("another bundle through the same reused bytes.Buffer")
			}
		}
		var err error
		if pi := c.Guard("Bundle.WriteTo", func() { _, err = cur.WriteTo(&buf) }); pi != nil {
			c.CheckTotal("Bundle.WriteTo", 0, pi, 0)
		}
		if err != nil {
			if c.Oracle("C03") {
				c.Violation("rewrite-error", "Bundle.WriteTo", "cycle %d through a reused buffer failed: %v", cy, err)
			}
			return
		}
		var rb *bundle.Bundle
		if pi := c.Guard("bundle.Read", func() { rb, err = bundle.Read(&buf) }); pi != nil {
			c.CheckTotal("bundle.Read", buf.Len(), pi, 0)
		}
		if err != nil {
			if c.Oracle("C03") {
				c.Violation("read-error", "bundle.Read", "cycle %d through a reused buffer: %v", cy, err)
			}
			return
		}
		if c.Oracle("C03") {
			sameAsModel(c, rb, lb, fmt.Sprintf("reused-buffer-cycle%d", cy))
		}
		results = append(results, rb)
		models = append(models, lb)
		cur = rb
	}
	c.Probe("write/read cycles through one reused bytes.Buffer")
	if c.Oracle("C03") {
		for i, rb := range results {
			sameAsModel(c, rb, models[i], fmt.Sprintf("reused-buffer-result%d-at-the-end", i+1))
		}
	}
}

func checkWellFormed(c *core.Ctx, wr written, site string) {
	if !c.Oracle("C04") {
		return
	}
	if wr.n != int64(len(wr.data)) {
		c.Violation("count-mismatch", "Bundle.WriteTo", "%s: returned count %d, destination accepted %d bytes", site, wr.n, len(wr.data))
	}
	if err := refbundle.Strict(wr.data); err != nil {
		c.Violation("malformed-output", "Bundle.WriteTo", "%s: independent parser: %v", site, err)
	}
}

// ---- C04 / C19: writer faults --------------------------------------------------

func TestWriterFaults(t *testing.T) {
	rapid.Check(t, func(t *rapid.T) {
		core.Run(t, "bundle/writer-faults", func(c *core.Ctx) {
			lb := gen.DrawBundle(c, 4, true)
			if lb.ExpectWriteError {
				c.Outcome("skipped")
				return
			}
			ok := writeBundle(c, lb.ToRepo(), core.WriterPlan{FailAt: -1})
			if ok.err != nil || ok.panicI != nil {
				return
			}
			full := ok.data
			earlierRefusedWrite(c)
			plan := core.WriterPlan{FailAt: c.Int("disk.failAt", 0, len(full)), Short: c.Bool("disk.short"), ReaderFrom: c.Bool("disk.readerFrom"), Transient: c.Chance("disk.transient", 1, 4)}
			chunked := c.Chance("disk.chunked", 1, 6)
			if chunked {
				// a healthy device that cuts long writes short (n < len(p), io.ErrShortWrite) and
				// takes the rest when offered again: failing is fine, resuming is fine, a wrong
				// count or an incomplete file reported as success is not
				plan = core.WriterPlan{FailAt: -1, Chunk: c.Int("disk.chunk", 1, len(full)+1), ReaderFrom: plan.ReaderFrom}
			}
			c.Event("%s; %d bytes; fail at %d short=%v rf=%v chunk=%d", lb.Describe(), len(full), plan.FailAt, plan.Short, plan.ReaderFrom, plan.Chunk)
			wr := writeBundle(c, lb.ToRepo(), plan)
			if wr.panicI != nil {
				c.CheckTotal("Bundle.WriteTo", 0, wr.panicI, 0)
			}
			if c.Oracle("C04", "C19") {
				if wr.n != int64(len(wr.data)) {
					c.Violation("count-mismatch", "Bundle.WriteTo", "returned count %d, destination accepted %d bytes (fail at %d)", wr.n, len(wr.data), plan.FailAt)
				}
			}
			if wr.err == nil && wr.panicI == nil {
				// whatever is emitted WITHOUT error is a well-formed bundle, device trouble or not
				checkWellFormed(c, wr, "no error reported under a device fault")
			}
			if chunked {
				if c.Oracle("C04", "C19") && wr.err == nil && wr.panicI == nil && !bytes.Equal(wr.data, full) {
					c.Violation("partial-output-reported-as-success", "Bundle.WriteTo/chunking-device", "a device taking %d bytes per call holds %d of %d bytes (or other bytes), WriteTo returned nil", plan.Chunk, len(wr.data), len(full))
				}
				c.Outcome("chunked")
				return
			}
			if c.Oracle("C19") {
				if plan.FailAt < len(full) && wr.err == nil {
					c.Violation("write-failure-swallowed", "Bundle.WriteTo", "destination failed after %d of %d bytes, WriteTo returned nil", plan.FailAt, len(full))
				}
				if !bytes.HasPrefix(full, wr.data) && !(plan.Transient && wr.w.CallsAfterFail > 0) {
					// (after a one-shot failure the device works again: whether further writes are
					// attempted is not judged, so the prefix clause applies only if none was)
					c.Violation("not-a-prefix", "Bundle.WriteTo", "bytes accepted before the failure are not a prefix of the fault-free output")
				}
				if plan.FailAt == len(full) && (wr.err != nil || !bytes.Equal(wr.data, full)) {
					c.Violation("control-failed", "Bundle.WriteTo", "no-fault control (k = len) failed: %v", wr.err)
				}
			}
			if wr.err != nil {
				c.Outcome("error")
			} else {
				c.Outcome("ok")
			}
			c.Sig("%s/short%v/rf%v", lb.Version, plan.Short, plan.ReaderFrom)
		})
	})
}

// srcReader is a source without WriterTo, with chunking and coalesced EOF.
type srcNoWT struct{ r *core.SimReader }

func (s srcNoWT) Read(p []byte) (int, error) { return s.r.Read(p) }

// TestCountingWriter: the exported CountingWriter on its own, through io.Copy
// with sources that do / do not implement WriterTo and destinations that do /
// do not implement ReaderFrom, under arbitrary chunking and (n, EOF)
// coalescing: Written = bytes accepted, nothing dropped, nil error at clean EOF.
func TestCountingWriter(t *testing.T) {
	rapid.Check(t, func(t *rapid.T) {
		core.Run(t, "bundle/counting-writer", func(c *core.Ctx) {
			data := c.Bytes("data", 0, 300)
			if c.Chance("data.big", 1, 8) {
				data = c.BytesN("data", 70000)
			}
			failAt := -1
			if c.Chance("dst.fail", 1, 3) {
				failAt = c.Int("dst.failAt", 0, len(data))
			}
			wp := core.WriterPlan{FailAt: failAt, Short: c.Bool("dst.short"), ReaderFrom: c.Bool("dst.readerFrom")}
			if failAt < 0 && c.Chance("dst.chunked", 1, 5) {
				wp.Chunk = c.Int("dst.chunk", 1, 40) // a healthy device that cuts long writes short
			}
			dst := c.NewWriter("dst", wp)
			cw := bundle.NewCountingWriter(dst)
			rp := c.DrawReaderPlan("src", len(data), false)
			var src io.Reader
			srcWT := c.Bool("src.writerTo")
			if srcWT {
				src = bytes.NewReader(data) // implements WriterTo: io.Copy calls src.WriteTo(cw) -> cw.Write
			} else {
				src = srcNoWT{c.NewReader("src", data, rp)} // io.Copy calls cw.ReadFrom(src)
			}
			var n int64
			var err error
			mode := c.Pick("mode", 3) // 0 io.Copy, 1 direct ReadFrom, 2 Write calls
			pi := c.Guard("CountingWriter", func() {
				switch mode {
				case 0:
					n, err = io.Copy(cw, src)
				case 1:
					n, err = cw.ReadFrom(src)
				default:
					buf := make([]byte, 7)
					for {
						k, rerr := src.Read(buf)
						if k > 0 {
							m, werr := cw.Write(buf[:k])
							n += int64(m)
							if werr != nil {
								err = werr
								return
							}
						}
						if rerr == io.EOF {
							return
						}
						if rerr != nil {
							err = rerr
							return
						}
					}
				}
			})
			if pi != nil {
				c.CheckTotal("CountingWriter", len(data), pi, 0)
			}
			acc := core.Unwrap(dst).Accepted
			c.Event("len=%d failAt=%d mode=%d srcWT=%v dstRF=%v plan=%v -> n=%d Written=%d accepted=%d err=%v", len(data), failAt, mode, srcWT, wp.ReaderFrom, rp, n, cw.Written, len(acc), err)
			if c.Oracle("C04", "C19") {
				if cw.Written != int64(len(acc)) {
					c.Violation("counting-writer-count", "CountingWriter", "Written=%d, destination accepted %d bytes (mode %d srcWriterTo=%v dstReaderFrom=%v)", cw.Written, len(acc), mode, srcWT, wp.ReaderFrom)
				}
				if !bytes.HasPrefix(data, acc) {
					c.Violation("counting-writer-data", "CountingWriter", "destination content is not a prefix of the source")
				}
				noFault := failAt < 0 || failAt >= len(data)
				if wp.Chunk > 0 && core.Unwrap(dst).Chunked > 0 {
					// failing is fine, resuming is fine; success means everything arrived
					if err == nil && !bytes.Equal(acc, data) {
						c.Violation("counting-writer-dropped", "CountingWriter/chunking-device", "%d of %d bytes reached a device taking %d bytes per call, nil error", len(acc), len(data), wp.Chunk)
					}
				} else if noFault {
					if err != nil {
						c.Violation("counting-writer-error", "CountingWriter", "error %v on a fault-free copy (clean EOF must be nil)", err)
					}
					if !bytes.Equal(acc, data) {
						c.Violation("counting-writer-dropped", "CountingWriter", "%d of %d bytes reached the destination", len(acc), len(data))
					}
					if n != int64(len(data)) {
						c.Violation("counting-writer-n", "CountingWriter", "returned n=%d for %d bytes", n, len(data))
					}
				} else if err == nil {
					c.Violation("write-failure-swallowed", "CountingWriter", "destination failed after %d bytes, copy returned nil", failAt)
				}
			}
			c.Outcome("nt:done")
			c.Sig("m%d/wt%v/rf%v/f%v/rm%d/co%v", mode, srcWT, wp.ReaderFrom, failAt >= 0, rp.Mode, rp.CoalesceEOF)
		})
	})
}

// ---- C05 / C10: storage faults --------------------------------------------------

func toCoreFields(fs []refbundle.Field) []core.Field {
	out := make([]core.Field, len(fs))
	for i, f := range fs {
		out[i] = core.Field{Name: f.Name, Off: f.Off, Width: f.Width, Kind: f.Kind, Value: f.Value}
	}
	return out
}

// judgeRead is the C05 oracle for one blob.
// checkReadTotal is CheckTotal for bundle.Read with one refinement of the memory
// clause. GuardAlloc reports CUMULATIVE allocation, which also counts garbage made
// and dropped along the way (the reader re-parses a variants-value per index
// location, for instance): when that figure exceeds the budget, the read is
// repeated under MeasurePeak and judged by the peak live memory it needs.
func checkReadTotal(c *core.Ctx, blob []byte, pi *core.PanicInfo, alloc uint64) {
	if pi == nil && alloc > core.AllocBudget(len(blob)) && (c.Prop == "C10" || c.Prop == "C00") {
		var keep *bundle.Bundle
		peak := core.MeasurePeak(func() { keep, _ = bundle.Read(bytes.NewReader(blob)) })
		runtime.KeepAlive(keep)
		c.Event("cumulative allocation %d bytes on a %d-byte input: peak re-measured", alloc, len(blob))
		if dp := os.Getenv("VERIF_DUMPBLOB"); dp != "" {
			os.WriteFile(dp, blob, 0644)
		}
		if peak > core.AllocBudget(len(blob)) {
			// The reader hands back one independent exchange - own copy of the body, own header
			// map - per index location, so a file whose index designates the same response
			// many times (aliased b2 entries, or a b1 variants entry with thousands of
			// locations) is inflated to the SUM of the listed lengths: a genuine defect of the
			// unchanged tree under C10 (known_findings.txt). Memory that this sum explains is
			// reported under its own fingerprint; anything beyond it is the ordinary violation.
			if p, rj := refbundle.Parse(blob); rj == nil {
				listed := uint64(0)
				for _, e := range p.Index {
					for _, l := range e.Locs {
						listed += l.Len
					}
				}
				// (64 x: the decoder keeps every decoded string, however short, in a buffer of its
				// own of at least half a kilobyte - a one-byte header value costs 9 bytes in the
				// file and some 600 in memory)
				if listed > 4*uint64(len(blob)) && peak <= core.AllocBudget(len(blob))+64*listed {
					c.Violation("alloc-by-aliased-index-entries", "bundle.Read", "bundle.Read needs %d bytes of live memory at its peak on a %d-byte input whose index lists locations of %d bytes in all (the same response designated many times: one copy per location)", peak, len(blob), listed)
				}
			}
			c.Violation("alloc", "bundle.Read", "bundle.Read needs %d bytes of live memory at its peak (%d allocated in all) on a %d-byte input (budget %d)", peak, alloc, len(blob), core.AllocBudget(len(blob)))
		}
		c.Probe("cumulative allocation above the budget, peak within it")
		alloc = 0
	}
	c.CheckTotal("bundle.Read", len(blob), pi, alloc)
}

func judgeRead(c *core.Ctx, blob []byte, rb *bundle.Bundle, err error, pi *core.PanicInfo, alloc uint64, site string) {
	if c.Oracle("C10", "C05") {
		checkReadTotal(c, blob, pi, alloc)
	}
	if pi != nil || !c.Oracle("C05") {
		return
	}
	p, xs, rj := refbundle.Extract(blob)
	if err != nil {
		c.Outcome("rejected")
		return
	}
	c.Outcome("accepted")
	if rj != nil && rj.Listed {
		c.Violation("accepted-out-of-bounds", site, "reader accepted a file the reference rejects: %s", rj.Reason)
	}
	if rj != nil {
		c.Probe("reader accepted, reference abstains (" + abbreviate(rj.Reason) + ")")
		return
	}
	if len(rb.Exchanges) != len(xs) {
		c.Violation("fabricated-or-lost", site, "reader returned %d exchanges, the file holds %d", len(rb.Exchanges), len(xs))
	}
	for i, ex := range rb.Exchanges {
		if d := sameAsRef(ex, xs[i]); d != "" {
			c.Violation("content-mismatch", site, "exchange %d: %s", i, d)
		}
	}
	if string(rb.Version) != p.Version {
		c.Violation("content-mismatch", site, "version %q, file is %q", rb.Version, p.Version)
	}
	if p.HasPrimary {
		if pu, e := url.Parse(p.PrimaryURL); e == nil && (rb.PrimaryURL == nil || rb.PrimaryURL.String() != pu.String()) {
			c.Violation("content-mismatch", site, "primary URL %v, file has %q", rb.PrimaryURL, p.PrimaryURL)
		}
	} else if rb.PrimaryURL != nil {
		c.Violation("content-mismatch", site, "primary URL %v fabricated", rb.PrimaryURL)
	}
	if p.HasManifest {
		if mu, e := url.Parse(p.ManifestURL); e == nil && (rb.ManifestURL == nil || rb.ManifestURL.String() != mu.String()) {
			c.Violation("content-mismatch", site, "manifest URL %v, file has %q", rb.ManifestURL, p.ManifestURL)
		}
	} else if rb.ManifestURL != nil {
		c.Violation("content-mismatch", site, "manifest URL %v fabricated", rb.ManifestURL)
	}
	if (p.Signatures != nil) != (rb.Signatures != nil) {
		c.Violation("content-mismatch", site, "signatures section present=%v, file has present=%v", rb.Signatures != nil, p.Signatures != nil)
	}
	if p.Signatures != nil {
		if len(rb.Signatures.VouchedSubsets) != len(p.Signatures.Vouched) || len(rb.Signatures.Authorities) != len(p.Signatures.Authorities) {
			c.Violation("content-mismatch", site, "signatures section: %d/%d authorities, %d/%d vouched subsets", len(rb.Signatures.Authorities), len(p.Signatures.Authorities), len(rb.Signatures.VouchedSubsets), len(p.Signatures.Vouched))
		}
		for i, v := range p.Signatures.Vouched {
			g := rb.Signatures.VouchedSubsets[i]
			if g.Authority != v.Authority || !bytes.Equal(g.Sig, v.Sig) || !bytes.Equal(g.Signed, v.Signed) {
				c.Violation("content-mismatch", site, "vouched subset %d differs from the file", i)
			}
		}
	}
}

func refbundleText(u string) []byte {
	b := []byte{}
	if len(u) < 24 {
		b = append(b, 0x60|byte(len(u)))
	} else {
		b = append(b, 0x78, byte(len(u)))
	}
	return append(b, u...)
}

func abbreviate(s string) string {
	for i, r := range s {
		if r == ':' || r == '(' || i > 40 {
			return s[:i]
		}
	}
	return s
}

// validBundleBytes writes a drawn bundle with the repository writer.
func validBundleBytes(c *core.Ctx, maxEx int) ([]byte, *gen.LBundle) {
	for i := 0; i < 4; i++ {
		lb := gen.DrawBundle(c, maxEx, true)
		if lb.ExpectWriteError {
			continue
		}
		wr := writeBundle(c, lb.ToRepo(), core.WriterPlan{FailAt: -1})
		if wr.err == nil && wr.panicI == nil {
			return wr.data, lb
		}
	}
	return nil, nil
}

func TestStorageFaults(t *testing.T) {
	rapid.Check(t, func(t *rapid.T) {
		core.Run(t, "bundle/storage-faults", func(c *core.Ctx) {
			data, lb := validBundleBytes(c, 5)
			if data == nil {
				return
			}
			c.Event("%s; %d bytes", lb.Describe(), len(data))
			p, _, rj := refbundle.Extract(data)
			if rj != nil {
				c.Event("reference cannot parse the writer's output: %s", rj.Reason)
				if c.Oracle("C05") {
					c.Violation("reference-disagrees", "refbundle", "reference parser rejects fault-free writer output: %s", rj.Reason)
				}
				return
			}
			blob := data
			nf := c.Int("nfaults", 1, 2)
			kind := ""
			for i := 0; i < nf; i++ {
				switch c.Pick("fault.class", 5) {
				case 0, 1: // metadata corruption of a located length / offset / count field
					if i > 0 {
						// field offsets are only valid on the pristine file
						blob = c.CorruptBlob("fault.blob", blob, nil)
						kind += "+generic"
						break
					}
					fields := toCoreFields(p.Fields)
					if c.Chance("fault.widen", 1, 3) {
						// rewrite a CBOR head with an 8-byte argument: values up to 2^64-1
						var cf []core.Field
						for _, f := range fields {
							if f.Kind == "cbor" {
								cf = append(cf, f)
							}
						}
						f := cf[c.Pick("fault.field", len(cf))]
						vals := core.BoundaryValues(f.Value, len(data))
						nv := vals[c.Pick("fault.val", len(vals))]
						blob = core.WidenCborField(blob, f, nv)
						c.Fault("metadata-corruption-widened")
						c.Event("metadata(widened) %s off=%d %d -> %d", f.Name, f.Off, f.Value, nv)
						if nv >= 1<<63 {
							c.Probe("metadata: length field >= 2^63")
						}
						kind += "+meta8:" + fieldClass(f.Name)
					} else {
						var f core.Field
						blob, f, _ = c.CorruptField("fault.meta", blob, fields)
						kind += "+meta:" + fieldClass(f.Name)
					}
				case 2:
					blob = c.CorruptBlob("fault.blob", blob, []string{"truncate"})
					kind += "+truncate"
				default:
					blob = c.CorruptBlob("fault.blob", blob, nil)
					kind += "+generic"
				}
			}
			// history: the pristine file is read first; what that read returned must
			// still be exactly the file's content after later reads of other inputs
			rb0, err0, pi0, _, _ := readBundle(c, data, core.ReaderPlan{ErrAt: -1})
			plan := c.DrawReaderPlan("disk.read", len(blob), false)
			rb, err, pi, alloc, _ := readBundle(c, blob, plan)
			judgeRead(c, blob, rb, err, pi, alloc, "bundle.Read")
			if pi0 == nil && err0 == nil {
				judgeRead(c, data, rb0, err0, nil, 0, "bundle.Read/earlier-result-after-later-read")
				if c.Bool("mutateThenReread") && len(rb0.Exchanges) > 0 {
					// the caller goes on to modify what it was handed (as sign-bundle does when it
					// adds Digest headers); reading the same file again must not see any of it
					for _, ex := range rb0.Exchanges {
						ex.Response.Header.Add("Digest", "mi-sha256-03=AAAA")
						ex.Response.Header.Set("X-Touched", "1")
						if len(ex.Response.Body) > 0 {
							ex.Response.Body[0] ^= 0xff
						}
						if ex.Request.URL != nil {
							// ... and rebases the URLs onto a mirror, in place
							ex.Request.URL.Host = "mirror.invalid"
							ex.Request.URL.Path += "/rebased"
						}
					}
					if rb0.PrimaryURL != nil {
						rb0.PrimaryURL.Host = "mirror.invalid"
					}
					rb1, err1, pi1, alloc1, _ := readBundle(c, data, core.ReaderPlan{ErrAt: -1})
					judgeRead(c, data, rb1, err1, pi1, alloc1, "bundle.Read/reread-after-caller-modified-earlier-result")
				}
			}
			c.Sig("%s%s", lb.Version, kind)
		})
	})
}

func fieldClass(n string) string {
	for i := 0; i < len(n); i++ {
		if n[i] == '[' {
			j := i
			for j < len(n) && n[j] != ']' {
				j++
			}
			if j < len(n) {
				return n[:i] + n[j+1:]
			}
		}
	}
	if len(n) > 16 && n[:16] == "section-lengths." {
		k := len(n) - 1
		for k > 0 && n[k] != '.' {
			k--
		}
		return "section-lengths" + n[k:]
	}
	return n
}

// TestReencode: the Byzantine re-encoder rebuilds a valid bundle with its
// sections reordered, duplicated, dropped, or with an unknown section inserted
// (section table and count rewritten consistently).
func TestReencode(t *testing.T) {
	rapid.Check(t, func(t *rapid.T) {
		core.Run(t, "bundle/reencode", func(c *core.Ctx) {
			data, lb := validBundleBytes(c, 4)
			if data == nil {
				return
			}
			p, xs, rj := refbundle.Extract(data)
			if rj != nil {
				return
			}
			secs := p.RawSections(data)
			op := c.PickStr("reencode.op", "unknown-section", "unknown-section", "reorder", "duplicate", "drop", "identity", "unknown-wrap", "length-cancel", "alias-index", "alias-index", "foreign-known-section", "variants-axes", "status-text", "head-of-other-version", "many-unknown-sections", "index-wrap-decoy", "alias-key-spelling")
			switch op {
			case "unknown-section":
				pos := c.Int("reencode.pos", 0, len(secs)-1) // anywhere before "responses"
				junk := c.Bytes("reencode.junk", 0, 40)
				// (also: any string literal of the tree under test that is not a section name)
				name := c.PickDict("reencode.name", []string{"foo", "x", "critical", "indexx", "Index"}, `^[A-Za-z][A-Za-z0-9-]{0,24}$`, "index", "manifest", "signatures", "responses", "primary")
				ns := append([]refbundle.RawSection{}, secs[:pos]...)
				ns = append(ns, refbundle.RawSection{Name: name, Data: junk})
				secs = append(ns, secs[pos:]...)
				c.Fault("reencode-unknown-section")
				c.Event("unknown section %q (%d bytes) inserted at position %d of %d", name, len(junk), pos, len(secs)-1)
			case "many-unknown-sections":
				// so many unknown (empty or small) sections that the section table's arrays pass the
				// 23/24-entry CBOR head-size steps (the lengths array holds two entries per section)
				total := c.PickInt("reencode.sectionsTotal", 11, 12, 13, 23, 24, 25, 26)
				for k := 0; len(secs) < total; k++ {
					pos := c.Int("reencode.pos", 0, len(secs)-1)
					junk := c.Bytes("reencode.junk", 0, 6)
					if c.Chance("reencode.junkEndsLikeMap", 1, 4) {
						junk = append(junk, 0xa0)
					}
					ns := append([]refbundle.RawSection{}, secs[:pos]...)
					ns = append(ns, refbundle.RawSection{Name: fmt.Sprintf("u%02d", k), Data: junk})
					secs = append(ns, secs[pos:]...)
				}
				c.Fault("reencode-many-unknown-sections")
				c.Event("%d sections in all", len(secs))
			case "foreign-known-section":
				// a section whose name another version defines ("manifest" in b2, "primary" in
				// b1), holding either a URL or bytes shaped like an index section
				name := "manifest"
				if p.Version == "b1" {
					name = "primary"
				}
				present := false
				for _, sc := range secs {
					if sc.Name == name {
						present = true
					}
				}
				if present {
					op = "identity"
					break
				}
				var data []byte
				if c.Bool("reencode.foreignIsURL") {
					data = refbundleText("https://example.com/m" + fmt.Sprint(c.Int("reencode.foreignN", 0, 9)))
				} else {
					// an index that points every URL at the first response
					ents := append([]refbundle.IndexEntry(nil), p.Index...)
					if len(ents) > 0 {
						first := ents[0].Locs[0]
						for i := range ents {
							ents[i].Locs = []refbundle.Loc{first}
						}
					}
					data = refbundle.EncodeIndex(p.Version, ents)
				}
				pos := c.Int("reencode.pos", 0, len(secs)-1)
				ns := append([]refbundle.RawSection{}, secs[:pos]...)
				ns = append(ns, refbundle.RawSection{Name: name, Data: data})
				secs = append(ns, secs[pos:]...)
				c.Fault("reencode-section-of-another-version")
				c.Event("section %q (%d bytes) inserted at position %d", name, len(data), pos)
			case "variants-axes":
				// a b1 index entry whose variants-value lists k two-valued axes (2^k possible
				// keys: beyond 32- and 64-bit arithmetic for large k) with few or no locations
				if p.Version != "b1" || len(p.Index) == 0 {
					op = "identity"
					break
				}
				ents := append([]refbundle.IndexEntry(nil), p.Index...)
				a := c.Pick("reencode.a", len(ents))
				k := c.PickInt("reencode.axes", 1, 2, 10, 12, 13, 13, 14, 31, 32, 33, 62, 63, 64, 65, 128)
				var axes []string
				for i := 0; i < k; i++ {
					nv := 2
					if i == k-1 && c.Bool("reencode.lastAxis3") {
						nv = 3
					}
					axes = append(axes, fmt.Sprintf("A%d;%s", i, strings.Join([]string{"x", "y", "z"}[:nv], ";")))
				}
				ents[a].Variants = []byte(strings.Join(axes, ", "))
				amplify := k >= 2 && k <= 13 && c.Chance("reencode.variantsAmplify", 1, 2)
				if amplify {
					// one more axis with a single value tens of kilobytes long, and a (valid) location
					// for every possible key: a small file whose index, if it keeps one key string per
					// location, occupies possible-keys x value-length bytes
					axes = append(axes, "Long;"+strings.Repeat("v", c.PickInt("reencode.longValue", 1<<14, 1<<15)))
					ents[a].Variants = []byte(strings.Join(axes, ", "))
				}
				if c.Chance("reencode.variantsGarbage", 1, 3) && !amplify {
					// a variants-value that strains the structured-header grammar instead
					frags := []string{"\"", "\\", ";", ",", " ", "*", "a", "Accept-Language", "\"\"", "\"a;b\"", "\xc3\xa9", "\x00", "=", "9999999999999999999999", ";;", ",,", "a;\"", "\t"}
					var sb strings.Builder
					for i, n := 0, c.Int("reencode.variantsFrags", 1, 12); i < n; i++ {
						sb.WriteString(frags[c.Pick("reencode.variantsFrag", len(frags))])
					}
					if c.Chance("reencode.variantsLong", 1, 8) {
						sb.WriteString(strings.Repeat(c.PickStr("reencode.variantsRun", "a;", "\"", "a,", ";"), c.PickInt("reencode.variantsRunLen", 1000, 70000)))
					}
					ents[a].Variants = []byte(sb.String())
					c.Fault("reencode-variants-grammar")
				}
				locs := ents[a].Locs
				axesLocs := c.Pick("reencode.axesLocs", 4)
				if amplify {
					axesLocs = 0 // a location for every possible key
				}
				switch axesLocs {
				case 0:
					locs = nil
					if amplify {
						n := 1 << uint(k)
						if len(axes) > 0 && strings.HasSuffix(axes[k-1], ";z") {
							n = n / 2 * 3
						}
						first := ents[a].Locs[0]
						for i := 0; i < n; i++ {
							locs = append(locs, first)
						}
					}
				case 1:
					locs = locs[:1]
				case 2:
					locs = append(append([]refbundle.Loc(nil), locs...), locs[0])
				}
				ents[a].Locs = locs
				for i := range secs {
					if secs[i].Name == "index" {
						secs[i].Data = refbundle.EncodeIndex(p.Version, ents)
					}
				}
				c.Fault("reencode-variants-axes")
				c.Event("index entry %d: variants-value with %d axes, %d locations", a, k, len(locs))
			case "index-wrap-decoy":
				// an index entry whose offset is 2^64-k and whose length is k or more: offset+length
				// wraps around to a small number, and offset itself points k bytes IN FRONT of the
				// responses section - where an unknown section holds a decoy response
				if len(p.Index) == 0 || len(secs) < 1 {
					op = "identity"
					break
				}
				{
					ents := append([]refbundle.IndexEntry(nil), p.Index...)
					a := c.Pick("reencode.a", len(ents))
					rs := p.ResponsesSection()
					la := ents[a].Locs[0]
					decoy := append([]byte(nil), data[rs.Off+int(la.Off):rs.Off+int(la.Off)+int(la.Len)]...)
					k := uint64(len(decoy))
					bI := c.Pick("reencode.b", len(ents))
					locs := append([]refbundle.Loc(nil), ents[bI].Locs...)
					locs[0] = refbundle.Loc{Off: -k, Len: k + uint64(c.PickInt("reencode.wrapExtra", 0, 0, 1, 8))}
					ents[bI].Locs = locs
					for i := range secs {
						if secs[i].Name == "index" {
							secs[i].Data = refbundle.EncodeIndex(p.Version, ents)
						}
					}
					ns := append([]refbundle.RawSection{}, secs[:len(secs)-1]...)
					ns = append(ns, refbundle.RawSection{Name: "decoy", Data: decoy})
					secs = append(ns, secs[len(secs)-1])
					c.Fault("reencode-index-offset-wraps-onto-a-decoy")
				}
			case "alias-key-spelling":
				// (b2) one more index entry whose key is another spelling of an existing key - equal
				// once a URL library has normalised it, different as bytes - pointing at ANOTHER response
				if p.Version != "b2" || len(p.Index) < 2 {
					op = "identity"
					break
				}
				{
					ents := append([]refbundle.IndexEntry(nil), p.Index...)
					a := c.Pick("reencode.a", len(ents))
					bI := (a + 1 + c.Pick("reencode.b", len(ents)-1)) % len(ents)
					key := ents[a].URL
					switch {
					case strings.HasPrefix(key, "https://"):
						key = "HTTPS://" + key[8:]
					case strings.HasPrefix(key, "http://"):
						key = "HTTP://" + key[7:]
					default:
						key += "#"
					}
					if c.Bool("reencode.aliasLiteral") {
						key = ents[a].URL // a literally repeated key
					}
					ents = append(ents, refbundle.IndexEntry{URL: key, Locs: ents[bI].Locs})
					for i := range secs {
						if secs[i].Name == "index" {
							secs[i].Data = refbundle.EncodeIndex(p.Version, ents)
						}
					}
					c.Fault("reencode-aliased-index-key")
					c.Event("index key %q added, pointing at entry %d's response", key, bI)
				}
			case "alias-index":
				// two index entries designate the same offset; the second with the same or a
				// different length (legal aliasing when equal, an inconsistent entry otherwise)
				if len(p.Index) < 2 {
					op = "identity"
					break
				}
				ents := append([]refbundle.IndexEntry(nil), p.Index...)
				a := c.Pick("reencode.a", len(ents))
				bI := c.Pick("reencode.b", len(ents))
				if a == bI {
					bI = (a + 1) % len(ents)
				}
				la := ents[a].Locs[0]
				nl := refbundle.Loc{Off: la.Off, Len: la.Len}
				switch c.Pick("reencode.aliasLen", 6) {
				case 0: // exact alias
				case 1:
					nl.Len = la.Len - 1
				case 2:
					nl.Len = la.Len + 1
				case 3:
					nl.Len = 0
				case 4:
					nl.Len = la.Len + ents[bI].Locs[0].Len
				default:
					nl.Len = 1
				}
				locs := append([]refbundle.Loc(nil), ents[bI].Locs...)
				locs[0] = nl
				ents[bI].Locs = locs
				for i := range secs {
					if secs[i].Name == "index" {
						secs[i].Data = refbundle.EncodeIndex(p.Version, ents)
					}
				}
				c.Fault("reencode-aliased-index-entry")
				c.Event("index entry %d now points at entry %d's offset %d with length %d (original %d)", bI, a, nl.Off, nl.Len, la.Len)
			case "length-cancel":
				// two declared section lengths changed by +d and -d (mod 2^64): every sum of
				// lengths that includes both is unchanged, each length alone is absurd
				if len(secs) < 2 {
					op = "identity"
					break
				}
				i := c.Int("reencode.i", 0, len(secs)-2)
				j := c.Int("reencode.j", i+1, len(secs)-1)
				d := c.PickU64("reencode.d", 1<<63, ^uint64(0)-7, 1<<40, ^uint64(0)-(1<<40)+1, 1<<32, ^uint64(0)-uint64(len(secs[i].Data))+1)
				li, lj := uint64(len(secs[i].Data))+d, uint64(len(secs[j].Data))-d
				secs[i].Decl, secs[j].Decl = &li, &lj
				c.Fault("reencode-cancelling-section-lengths")
				c.Event("declared lengths of %q and %q changed to %d and %d", secs[i].Name, secs[j].Name, li, lj)
			case "unknown-wrap":
				// unknown sections whose declared lengths do not match their (empty) data and
				// whose sum wraps around 2^64: a reader that adds lengths without checking lands
				// back on the real offsets
				pos := c.Int("reencode.pos", 0, len(secs)-1)
				x := c.PickU64("reencode.wrap", 1, 8, 1<<32, 1<<63)
				l1, l2 := -x, x // l1 = 2^64 - x
				if c.Bool("reencode.wrapSingle") {
					l1 = c.PickU64("reencode.huge", ^uint64(0), 1<<63, 1<<63-1, ^uint64(0)-7)
				}
				ns := append([]refbundle.RawSection{}, secs[:pos]...)
				ns = append(ns, refbundle.RawSection{Name: "foo", Decl: &l1})
				if !c.Bool("reencode.wrapSingle2") {
					ns = append(ns, refbundle.RawSection{Name: "bar", Decl: &l2})
				}
				secs = append(ns, secs[pos:]...)
				c.Fault("reencode-unknown-section-wrapping-length")
				c.Event("unknown sections with declared lengths %d and %d inserted at %d", l1, l2, pos)
			case "reorder":
				if len(secs) < 3 {
					op = "identity"
					break
				}
				i := c.Int("reencode.i", 0, len(secs)-2)
				j := c.Int("reencode.j", 0, len(secs)-2)
				secs[i], secs[j] = secs[j], secs[i]
				c.Fault("reencode-reorder-sections")
				c.Event("sections %d and %d swapped", i, j)
			case "duplicate":
				i := c.Int("reencode.i", 0, len(secs)-1)
				pos := c.Int("reencode.pos", 0, len(secs)-1)
				ns := append([]refbundle.RawSection{}, secs[:pos]...)
				ns = append(ns, secs[i])
				secs = append(ns, secs[pos:]...)
				c.Fault("reencode-duplicate-section")
				c.Event("section %q duplicated at %d", secs[pos].Name, pos)
			case "drop":
				i := c.Int("reencode.i", 0, len(secs)-1)
				c.Event("section %q dropped", secs[i].Name)
				secs = append(secs[:i:i], secs[i+1:]...)
				c.Fault("reencode-drop-section")
			}
			blob := refbundle.Build(p.Version, p.PrimaryURL, secs)
			if op == "head-of-other-version" {
				// the first byte (top-level array head) of the other format version, or the other
				// version's version string under this version's head: a file of neither version
				if c.Bool("reencode.headByte") {
					blob[0] ^= 0x03 // 0x85 <-> 0x86
				} else {
					blob[12] ^= 0x03 // '1' <-> '2'
				}
				c.Fault("reencode-head-of-other-version")
			}
			if op == "status-text" {
				// one response's three status bytes overwritten in place by text that some number
				// parsers accept (sign, exponent, blanks, non-ASCII digits): every offset stays valid
				var at []int
				for off := 0; ; {
					i := bytes.Index(blob[off:], []byte("\x47:status\x43"))
					if i < 0 {
						break
					}
					at = append(at, off+i+9)
					off += i + 1
				}
				if len(at) > 0 {
					copy(blob[at[c.Pick("reencode.statusAt", len(at))]:], c.PickStr("reencode.statusText", "+20", "-20", "-07", "-00", "2e1", " 20", "20 ", "0x1", "2_0", "\xd9\xa20", "1.5", "\x0020"))
					c.Fault("reencode-status-text")
				} else {
					op = "identity"
				}
			}
			plan := c.DrawReaderPlan("disk.read", len(blob), false)
			rb, err, pi, alloc, _ := readBundle(c, blob, plan)
			judgeRead(c, blob, rb, err, pi, alloc, "bundle.Read/"+op)
			if c.Oracle("C05") && pi == nil && (op == "unknown-section" || op == "identity" || op == "many-unknown-sections") {
				// an unknown section must be stepped over: same content as without it
				if err != nil {
					c.Violation("lost-place-at-unknown-section", "bundle.Read", "a bundle with an unknown section before \"responses\" was rejected: %v", err)
				}
				if len(rb.Exchanges) != len(xs) {
					c.Violation("lost-place-at-unknown-section", "bundle.Read", "%d exchanges read, %d without the unknown section", len(rb.Exchanges), len(xs))
				}
				for i := range xs {
					if d := sameAsRef(rb.Exchanges[i], xs[i]); d != "" {
						c.Violation("lost-place-at-unknown-section", "bundle.Read", "exchange %d changed by the unknown section: %s", i, d)
					}
				}
			}
			c.Sig("%s/%s", lb.Version, op)
		})
	})
}

// TestExhaustiveTruncation: one valid bundle truncated at every offset (torn
// write), delivered whole.
func TestExhaustiveTruncation(t *testing.T) {
	rapid.Check(t, func(t *rapid.T) {
		core.Run(t, "bundle/exhaustive-truncation", func(c *core.Ctx) {
			data, lb := validBundleBytes(c, 3)
			if data == nil || len(data) > 3000 {
				c.Outcome("skipped")
				return
			}
			for cut := 0; cut < len(data); cut++ {
				blob := data[:cut]
				rb, err, pi, alloc, _ := readBundle(c, blob, core.ReaderPlan{ErrAt: -1})
				judgeRead(c, blob, rb, err, pi, alloc, "bundle.Read/truncated")
			}
			c.Fault("storage-truncate")
			core.ExhaustiveDone("C05: truncation at every offset of one valid bundle", 1)
			c.Outcome("done")
			c.Sig("%s/len%d", lb.Version, len(data))
		})
	})
}

// TestArbitrary: arbitrary blobs (what a lost or misdirected write leaves),
// with and without a valid magic prefix.
func TestArbitrary(t *testing.T) {
	rapid.Check(t, func(t *rapid.T) {
		core.Run(t, "bundle/arbitrary", func(c *core.Ctx) {
			var blob []byte
			switch c.Pick("blob.kind", 3) {
			case 0:
				blob = c.Bytes("blob", 0, 200)
			case 1:
				blob = refbundle.Build(c.PickStr("v", "b1", "b2"), "https://example.com/", []refbundle.RawSection{{Name: "index", Data: c.Bytes("index", 0, 60)}, {Name: "responses", Data: c.Bytes("responses", 0, 120)}})
			default:
				// a valid bundle of one version with another file's tail (misdirected write)
				a, _ := validBundleBytes(c, 2)
				b, _ := validBundleBytes(c, 2)
				if a == nil || b == nil {
					return
				}
				cut := c.Int("splice.a", 0, len(a))
				cut2 := c.Int("splice.b", 0, len(b))
				blob = append(append([]byte(nil), a[:cut]...), b[cut2:]...)
				c.Fault("storage-misdirected-write")
			}
			c.Fault("storage-arbitrary-content")
			rb, err, pi, alloc, _ := readBundle(c, blob, core.ReaderPlan{ErrAt: -1})
			judgeRead(c, blob, rb, err, pi, alloc, "bundle.Read/arbitrary")
			c.Sig("len%d", len(blob)/16)
		})
	})
}

// TestConcurrentReaders: two or three bundle.Read tasks over their own
// (possibly damaged) files run under the cooperative scheduler, parked at
// every Read of their chunked disk; each result is judged against its own file.
func TestConcurrentReaders(t *testing.T) {
	rapid.Check(t, func(t *rapid.T) {
		core.Run(t, "bundle/concurrent-readers", func(c *core.Ctx) {
			n := c.Int("ntasks", 2, 3)
			blobs := make([][]byte, n)
			results := make([]*bundle.Bundle, n)
			errs := make([]error, n)
			var tasks []func(yield func())
			for i := 0; i < n; i++ {
				i := i
				data, _ := validBundleBytes(c, 3)
				if data == nil {
					return
				}
				if c.Chance("damaged", 1, 3) {
					data = c.CorruptBlob("blob", data, nil)
				}
				blobs[i] = data
				sr := c.NewReader(fmt.Sprintf("disk%d", i), data, core.ReaderPlan{ErrAt: -1, Mode: 1, Chunk: c.PickInt("chunk", 7, 64, 511, 4096)})
				tasks = append(tasks, func(yield func()) {
					sr.OnCall = yield
					results[i], errs[i] = bundle.Read(sr)
				})
			}
			sched, panics := c.RunTasks("sched", tasks)
			c.Event("schedule %s", sched)
			for i := range blobs {
				var pi *core.PanicInfo
				if panics[i] != nil {
					pi = &core.PanicInfo{Value: fmt.Sprint(panics[i]), Site: "bundle.Read(concurrent)"}
				}
				judgeRead(c, blobs[i], results[i], errs[i], pi, 0, "bundle.Read/concurrent")
			}
			c.Sig("%s", sched)
		})
	})
}

// scaleVariants: the largest variant set the format allows for one URL - 100 x 100
// possible keys, 100 representations covering one row of 100 keys each - and one
// more value on an axis (10100 keys), which the writer refuses.
func scaleVariants(c *core.Ctx) {
	over := c.Chance("scale.variantsOver", 1, 4)
	rows, cols := 100, 100
	if over {
		cols = 101
	}
	lb := &gen.LBundle{Order: map[string][]int{}, Version: "b1", Primary: "https://example.com/v", MultiKey: true}
	ax := func(prefix string, n int) []string {
		var vs []string
		for i := 0; i < n; i++ {
			vs = append(vs, fmt.Sprintf("%s%d", prefix, i))
		}
		return vs
	}
	a, b := ax("a", rows), ax("b", cols)
	variants := "Accept-Language;" + strings.Join(a, ";") + ", Accept-Encoding;" + strings.Join(b, ";")
	u := "https://example.com/v"
	var pos []int
	for i := 0; i < rows; i++ {
		var keys []string
		for j := 0; j < cols; j++ {
			keys = append(keys, a[i]+";"+b[j])
			pos = append(pos, i)
		}
		lb.Exchanges = append(lb.Exchanges, gen.LExchange{URL: u, Resp: gen.LResp{Status: 200, Body: []byte(fmt.Sprintf("row %d", i)),
			Headers: []gen.HV{{Name: "Content-Type", Value: "text/plain"}, {Name: "Variants", Value: variants}, {Name: "Variant-Key", Value: strings.Join(keys, ", ")}}}})
	}
	lb.Order[u] = pos
	var buf bytes.Buffer
	var werr error
	if pi := c.Guard("Bundle.WriteTo", func() { _, werr = lb.ToRepo().WriteTo(&buf) }); pi != nil {
		c.CheckTotal("Bundle.WriteTo", 0, pi, 0)
	}
	c.Event("variant set of %d x %d keys: write err=%v", rows, cols, werr != nil)
	if over {
		// (more keys than the format's limit for one URL: refusing is right, and so is
		// writing a file that reads back completely)
		if werr != nil {
			c.Outcome("nt:refused-over-limit")
			return
		}
	} else if werr != nil {
		if c.Oracle("C03") {
			c.Violation("write-error", "Bundle.WriteTo/scale", "writer refused a complete variant set of exactly 10000 keys: %v", werr)
		}
		return
	}
	rb, rerr, pi, alloc, _ := readBundle(c, buf.Bytes(), core.ReaderPlan{ErrAt: -1})
	if c.Oracle("C10", "C05", "C03") {
		checkReadTotal(c, buf.Bytes(), pi, alloc)
	}
	if pi != nil {
		return
	}
	if rerr != nil {
		if c.Oracle("C03", "C05") {
			c.Violation("read-error", "bundle.Read/scale", "reader rejected the writer's output (variant set of %d keys): %v", rows*cols, rerr)
		}
		return
	}
	if c.Oracle("C03", "C05") {
		sameAsModel(c, rb, lb, "scale-variants")
	}
	c.Outcome("nt:ok")
	c.Sig("scale/variants/%v", over)
}

// TestScale: sizes at which implementations keep thresholds (table capacities,
// pre-allocation limits, chunk sizes): a site of tens of thousands of small
// resources with pairwise distinct header values, or a few resources of one
// to three MiB. Written, checked by the independent parser, read back and
// compared. Few runs, each large.
func TestScale(t *testing.T) {
	rapid.Check(t, func(t *rapid.T) {
		core.Run(t, "bundle/scale", func(c *core.Ctx) {
			lb := &gen.LBundle{Order: map[string][]int{}, Version: c.PickStr("bundle.version", "b1", "b2")}
			n, bodyLen := c.PickInt("scale.many", 4097, 5003, 9999, 33000, 40000, 66000)+c.Int("scale.manyOdd", 0, 7), 3
			if c.Chance("scale.variants10000", 1, 4) {
				scaleVariants(c)
				return
			}
			if c.Chance("scale.fewLarge", 1, 3) {
				n, bodyLen = c.Int("scale.few", 1, 3), c.PickInt("scale.bodyLen", 1<<20, 1<<20+1, 3<<20+7)
			}
			big := c.PickInt("scale.oneBigBody", 1<<20+1, 1<<21+5, 1<<20+1) // every run holds one body past 1 MiB
			for i := 0; i < n; i++ {
				u := fmt.Sprintf("https://example.com/site/%d", i)
				body := make([]byte, bodyLen)
				if i == n/2 {
					body = make([]byte, big)
				}
				core.FillPattern(body, uint64(i)+1)
				lb.Order[u] = []int{i}
				lb.Exchanges = append(lb.Exchanges, gen.LExchange{URL: u, Resp: gen.LResp{Status: 200, Body: body,
					Headers: []gen.HV{{Name: "Content-Type", Value: "text/plain"}, {Name: "Etag", Value: fmt.Sprintf("\"e%d\"", i)}, {Name: "Last-Modified", Value: fmt.Sprintf("lm-%d", i)}}}})
			}
			lb.Primary = lb.Exchanges[0].URL
			c.Event("%s", lb.Describe())
			var buf bytes.Buffer
			var n64 int64
			var werr error
			if pi := c.Guard("Bundle.WriteTo", func() { n64, werr = lb.ToRepo().WriteTo(&buf) }); pi != nil {
				c.CheckTotal("Bundle.WriteTo", 0, pi, 0)
			}
			if werr != nil {
				c.Violation("write-error", "Bundle.WriteTo/scale", "writer refused a valid bundle: %v", werr)
			}
			data := buf.Bytes()
			if c.Oracle("C04") {
				checkWellFormed(c, written{data: data, n: n64}, "scale")
			}
			rb, rerr, pi, alloc, _ := readBundle(c, data, core.ReaderPlan{ErrAt: -1})
			if c.Oracle("C10", "C05", "C03") {
				c.CheckTotal("bundle.Read", len(data), pi, alloc)
			}
			if pi != nil {
				return
			}
			if rerr != nil {
				if c.Oracle("C03", "C05") {
					c.Violation("read-error", "bundle.Read/scale", "reader rejected the writer's output (%d exchanges, %d bytes): %v", n, len(data), rerr)
				}
				return
			}
			if c.Oracle("C03", "C05") {
				sameAsModel(c, rb, lb, "scale")
			}
			c.Outcome("nt:ok")
			c.Sig("scale/%s/%d/%d", lb.Version, n, bodyLen)
		})
	})
}
