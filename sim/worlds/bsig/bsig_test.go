// World W-BSIG: a bundler produces a bundle, k signers append signatures one
// after another (exactly as the sign-bundle command orchestrates the library
// calls), the bundle sits on disk, a client reads it and verifies at its own
// clock. Properties C06 (clean, tamper, clock) and C10 (watchdog).
package bsig

import (
	"bytes"
	"crypto/x509"
	"fmt"
	"net/http"
	"net/url"
	"testing"
	"time"

	"github.com/WICG/webpackage/go/bundle"
	"github.com/WICG/webpackage/go/bundle/signature"
	"github.com/WICG/webpackage/go/bundle/version"
	"github.com/WICG/webpackage/go/signedexchange/certurl"
	"github.com/WICG/webpackage/go/verifhook"
	"pgregory.net/rapid"
	"verifsim/core"
	"verifsim/fixtures"
	"verifsim/gen"
	"verifsim/ref/refbundle"
	"verifsim/ref/refcbor"
	"verifsim/ref/refmice"
)

func TestMain(m *testing.M) { core.Main(m) }

// signerSpec is one signing party.
type signerSpec struct {
	leaf     *fixtures.Leaf
	date     int64
	duration int64
	dateNs   int64 // sub-second part of the moment of signing (the signed date is in whole seconds)
	rs       int
	chainLen int
	entropy  byte
}

// vouched is what one signer vouched for one URL.
type vouched struct {
	signer  int
	status  int
	headers map[string]string // canonical, after payload-integrity headers were added
	body    []byte            // original, pre-encoding
}

type world struct {
	c       *core.Ctx
	lb      *gen.LBundle
	signers []signerSpec
	vouched map[string]vouched
	b       *bundle.Bundle // the signed bundle in the bundler's memory
	file    []byte
}

var signerPools = [][]string{{"a-p256", "c-p256", "d-p384"}, {"b-p384", "c-p256", "d-p384"}, {"a2-p256", "d-p384", "c-p256"}, {"e-p256", "f-p384", "a-p256"}, {"f-p384", "c-p256", "e-p256"}, {"g-p256", "a-p256", "d-p384"}}

func covers(leaf *fixtures.Leaf, u *url.URL) bool {
	return leaf.Cert().VerifyHostname(u.Hostname()) == nil
}

// offerDuplicate makes the next addSignature offer one refused duplicate (see there).
var offerDuplicate, duplicateRefused bool

// addSignature is the orchestration of sign-bundle's signatures-section
// sub-command (cmd/sign-bundle/signedexchange.go addSignature), with the
// record size as a parameter instead of a flag.
func addSignature(b *bundle.Bundle, signer *signature.Signer, rs int) error {
	for _, e := range b.Exchanges {
		if !signer.CanSignForURL(e.Request.URL) {
			continue
		}
		// (see buildWorld: a response that already carries a Digest cannot take payload
		// integrity; the tool leaves such an exchange unsigned and carries on)
		hadDigest := e.Response.Header.Get("Digest") != ""
		pih, err := e.AddPayloadIntegrity(b.Version, rs)
		if err != nil {
			if hadDigest {
				continue
			}
			return err
		}
		if err := signer.AddExchange(e, pih); err != nil {
			return err
		}
		if offerDuplicate {
			// history: the tool is then offered a second representation of the same URL, which
			// the signer refuses; the tool skips it and carries on. The refusal must leave
			// nothing behind.
			e2 := &bundle.Exchange{Request: e.Request, Response: bundle.Response{Status: e.Response.Status, Header: http.Header{"Content-Type": {"text/x-second"}}, Body: []byte("second representation")}}
			if pih2, err := e2.AddPayloadIntegrity(b.Version, rs); err == nil {
				duplicateRefused = signer.AddExchange(e2, pih2) != nil
			}
			// ... and a resource of another URL of the same host whose header map cannot be
			// serialized (keys differing only in letter case): refused as well
			u3 := *e.Request.URL
			u3.Path += "-unhashable"
			e3 := &bundle.Exchange{Request: bundle.Request{URL: &u3}, Response: bundle.Response{Status: 200, Header: http.Header{"Content-Type": {"text/plain"}, "X-Robots-Tag": {"a"}, "x-robots-tag": {"b"}}, Body: []byte("third")}}
			if pih3, err := e3.AddPayloadIntegrity(b.Version, rs); err == nil {
				if signer.AddExchange(e3, pih3) == nil {
					duplicateRefused = false
				}
			}
			offerDuplicate = false
		}
	}
	ns, err := signer.UpdateSignatures(b.Signatures)
	if err != nil {
		return err
	}
	b.Signatures = ns
	return nil
}

func buildWorld(c *core.Ctx, base int64, tightWindows bool) *world {
	w := &world{c: c, vouched: map[string]vouched{}}
	if c.Chance("farDate", 1, 6) {
		base = c.PickI64("dateBase", 1<<31, 1<<32, 1<<40, 1<<24) + c.I64("dateOff", -700000, 700000)
	}
	lb := &gen.LBundle{Order: map[string][]int{}}
	lb.Version = c.PickStr("bundle.version", "b1", "b2")
	n := c.Int("bundle.nex", 1, 5)
	if c.Chance("bundle.manyExchanges", 1, 15) {
		// signed subsets (a CBOR map of URLs) around the 23/24-entry head-size step
		n = c.PickInt("bundle.nexMany", 22, 23, 24, 25, 26)
	}
	for i := 0; i < n; i++ {
		u := gen.DrawURL(c, "bundle.url", i, false, "")
		r := gen.DrawResp(c, "bundle.resp", i)
		r.DirectMap = false
		if lb.Version == "b1" && c.Chance("bundle.loneVariants", 1, 8) {
			// a single representation that nevertheless states its content negotiation
			r.Headers = append(r.Headers, gen.HV{Name: "Variants", Value: "Accept-Language;en;fr"}, gen.HV{Name: "Variant-Key", Value: "en"})
			c.Probe("covered response carrying a Variants header")
		}
		if c.Chance("bundle.preDigest", 1, 10) {
			// the origin server already sent a Digest of another algorithm (RFC 3230)
			r.Headers = append(r.Headers, gen.HV{Name: "Digest", Value: "sha-256=X48E9qOokqqrvdts8nOJRJN3OWDUoyWxBf7kbu9DBPE="})
			c.Probe("response that already carries a Digest header")
		}
		if len(r.Body) > 2000 {
			r.Body = r.Body[:2000]
		}
		lb.Order[u] = []int{i}
		lb.Exchanges = append(lb.Exchanges, gen.LExchange{URL: u, Resp: r})
	}
	if lb.Version == "b1" || c.Bool("bundle.hasPrimary") {
		lb.Primary = lb.Exchanges[0].URL
	}
	w.lb = lb
	pool := signerPools[c.Pick("signers.pool", len(signerPools))]
	k := c.Int("signers.k", 1, 3)
	perm := c.Perm("signers.perm", len(pool))
	for i := 0; i < k; i++ {
		s := signerSpec{leaf: fixtures.ByName(pool[perm[i]])}
		s.rs = c.PickInt("signer.rs", 1, 16, 100, 4096, 16384)
		s.chainLen = c.Int("signer.chainLen", 1, 3)
		s.entropy = byte(c.Int("signer.entropy", 0, 255))
		if c.Chance("signer.subSecond", 1, 3) {
			// the signing tool reads a real clock: the moment of signing is not a whole second
			s.dateNs = c.PickI64("signer.dateNs", 1, 499999999, 500000000, 750000000, 999999999)
		}
		if tightWindows {
			s.date = base - c.I64("signer.back", 0, 50)
			s.duration = c.PickI64("signer.duration", 100, 3600, 604799, 604800)
		} else {
			s.date = base - c.I64("signer.back", 0, 1000)
			s.duration = 1000 + c.I64("signer.duration", 1, 600000)
		}
		w.signers = append(w.signers, s)
	}
	return w
}

// sharedChains, when non-nil, makes worlds of one run hand the SAME CertChain
// value to signers with the same leaf and length (a publisher signing several
// bundles with one loaded chain).
var sharedChains map[string]certurl.CertChain

func (w *world) chain(s signerSpec) certurl.CertChain {
	key := fmt.Sprintf("%s/%d", s.leaf.Name, s.chainLen)
	if sharedChains != nil {
		if ch, ok := sharedChains[key]; ok {
			return ch
		}
	}
	ch := w.chain0(s)
	if sharedChains != nil {
		sharedChains[key] = ch
	}
	return ch
}

func (w *world) chain0(s signerSpec) certurl.CertChain {
	certs := []*x509.Certificate{s.leaf.Cert()}
	if s.chainLen > 1 {
		certs = append(certs, s.leaf.Issuer())
	}
	if s.chainLen > 2 {
		certs = append(certs, s.leaf.Issuer()) // (a cross-signed copy of the root as third element)
	}
	ch, err := certurl.NewCertChain(certs, []byte("ocsp-"+s.leaf.Name), nil)
	if err != nil {
		panic(err)
	}
	return ch
}

// sign runs the bundler and the k signers. If reload is set, the bundle goes
// through a write/read cycle between signers (each sign-bundle invocation
// reads and writes a file).
func (w *world) sign(reload bool) error {
	c := w.c
	b := w.lb.ToRepo()
	for i, s := range w.signers {
		if reload {
			var buf bytes.Buffer
			if _, err := b.WriteTo(&buf); err != nil {
				return fmt.Errorf("write before signer %d: %v", i, err)
			}
			nb, err := bundle.Read(&buf)
			if err != nil {
				return fmt.Errorf("read before signer %d: %v", i, err)
			}
			b = nb
		}
		vu, _ := url.Parse("https://" + s.leaf.Hosts[0] + "/validity")
		dur := time.Duration(s.duration) * time.Second
		if s.duration > 1<<32 {
			dur = time.Hour // not representable as a Duration: Expires is set directly below
		}
		signer, err := signature.NewSigner(b.Version, w.chain(s), s.leaf.Key, vu, time.Unix(s.date, s.dateNs), dur)
		if err != nil {
			return fmt.Errorf("NewSigner %d: %v", i, err)
		}
		if s.duration > 1<<32 {
			signer.SignedSubset.Expires = time.Unix(s.date+s.duration, 0)
			c.Probe("lifetime of centuries")
		}
		signer.Algorithm, _ = verifhook.SigningAlgorithmForPrivateKey(s.leaf.Key, fixtures.ConstReader{B: s.entropy})
		w.recordVouched(b, signer, s, i)
		offerDuplicate = c.Chance("signer.offeredDuplicate", 1, 4)
		if offerDuplicate {
			c.Probe("a second representation of a signed URL was offered and refused")
		}
		if err := addSignature(b, signer, s.rs); err != nil {
			return fmt.Errorf("addSignature %d: %v", i, err)
		}
		offerDuplicate = false
		if c.Chance("signer.usedAgain", 1, 4) {
			// history: the same Signer object is then used once more (for another bundle, with a
			// refreshed date); what it returned for THIS bundle stays what it was
			signer.SignedSubset.Date = signer.SignedSubset.Date.Add(time.Second)
			signer.SignedSubset.Expires = signer.SignedSubset.Expires.Add(time.Second)
			signer.UpdateSignatures(nil)
			c.Probe("Signer object used again after it produced this bundle's signatures")
		}
		c.Event("signer %d: %s rs=%d chain=%d window [%d,%d]", i, s.leaf.Name, s.rs, s.chainLen, s.date, s.date+s.duration)
	}
	w.b = b
	var buf bytes.Buffer
	if _, err := b.WriteTo(&buf); err != nil {
		return fmt.Errorf("final write: %v", err)
	}
	w.file = buf.Bytes()
	return nil
}

func (w *world) indexOf(u string, hint int) int {
	for i, e := range w.lb.Exchanges {
		if e.URL == u {
			return i
		}
	}
	return hint
}

// overlap reports whether a later signer would have to re-sign an exchange an
// earlier one already encoded (the library refuses that; the world avoids it).
func (w *world) hostOverlap() bool {
	for _, e := range w.lb.Exchanges {
		u, _ := url.Parse(e.URL)
		n := 0
		for _, s := range w.signers {
			if covers(s.leaf, u) {
				n++
			}
		}
		if n > 1 {
			return true
		}
	}
	return false
}

func canon(h http.Header) map[string]string {
	m, _ := gen.CanonHeader(h)
	return m
}

func sameMap(a, b map[string]string) bool {
	if len(a) != len(b) {
		return false
	}
	for _, k := range core.SortedKeys(a) {
		if v, ok := b[k]; !ok || v != a[k] {
			return false
		}
	}
	return true
}

type clientResult struct {
	verifierErr error
	accepted    int
	unsigned    int
	rejected    int
}

// client reads nothing: it is handed a bundle object and a clock reading.
func (w *world) client(b *bundle.Bundle, t time.Time, what string, expectAll bool) clientResult {
	res, _ := w.clientWith(nil, b, t, what, expectAll)
	return res
}

// clientWith verifies every exchange of b; with a non-nil v the client keeps
// using a Verifier it created earlier (history: results must not depend on
// what that Verifier was asked before).
func (w *world) clientWith(v *signature.Verifier, b *bundle.Bundle, t time.Time, what string, expectAll bool) (clientResult, *signature.Verifier) {
	res, v := w.clientWith0(v, b, t, what, expectAll)
	return res, v
}

func (w *world) clientWith0(v *signature.Verifier, b *bundle.Bundle, t time.Time, what string, expectAll bool) (res clientResult, vout *signature.Verifier) {
	c := w.c
	var err error
	if b.Signatures == nil {
		res.unsigned = len(b.Exchanges)
		return res, nil
	}
	var pi *core.PanicInfo
	if v == nil {
		var alloc uint64
		pi, alloc = c.GuardAlloc("signature.NewVerifier", func() { v, err = signature.NewVerifier(b.Signatures, t, b.Version) })
		if c.Oracle("C10", "C06") {
			c.CheckTotal("signature.NewVerifier", len(w.file), pi, alloc)
		}
	}
	vout = v
	if pi != nil {
		return res, nil
	}
	if err != nil {
		res.verifierErr = err
		if expectAll && c.Oracle("C06") {
			c.Violation("verifier-refused", "signature.NewVerifier", "honest signatures refused at t=%d (%s): %v", t.Unix(), what, err)
		}
		return res, vout
	}
	// a verifier exists: every vouched subset passed the time checks, so t must be inside every honest signer's window
	type held struct {
		url     string
		payload []byte
		want    []byte
	}
	var heldResults []held
	defer func() {
		// history: results handed out earlier must still be intact after the later calls
		if c.Oracle("C06") {
			for _, h := range heldResults {
				if !bytes.Equal(h.payload, h.want) {
					c.Violation("result-changed-later", "Verifier.VerifyExchange", "the verified payload returned for %q was modified by later VerifyExchange calls (%s)", h.url, what)
				}
			}
		}
	}()
	for _, e := range b.Exchanges {
		var r *signature.VerifyExchangeResult
		var verr error
		pi, alloc := c.GuardAlloc("Verifier.VerifyExchange", func() { r, verr = v.VerifyExchange(e) })
		if c.Oracle("C10", "C06") {
			c.CheckTotal("Verifier.VerifyExchange", len(w.file), pi, alloc)
		}
		if pi != nil {
			continue
		}
		u := ""
		if e.Request.URL != nil {
			u = e.Request.URL.String()
		}
		vo, covered := w.vouched[u]
		switch {
		case verr != nil:
			res.rejected++
			if expectAll && c.Oracle("C06") {
				c.Violation("exchange-refused", "Verifier.VerifyExchange", "honest exchange %q refused (%s): %v", u, what, verr)
			}
		case r == nil:
			res.unsigned++
			if expectAll && covered && c.Oracle("C06") {
				c.Violation("covered-reported-unsigned", "Verifier.VerifyExchange", "exchange %q is covered by signer %d but reported as unsigned (%s)", u, vo.signer, what)
			}
		default:
			res.accepted++
			heldResults = append(heldResults, held{u, r.VerifiedPayload, append([]byte(nil), r.VerifiedPayload...)})
			if !c.Oracle("C06") {
				continue
			}
			if !covered {
				c.Violation("uncovered-verified", "Verifier.VerifyExchange", "exchange %q verified although no signer of this run vouched for it (%s)", u, what)
			}
			s := w.signers[vo.signer]
			if e.Response.Status != vo.status || !sameMap(canon(e.Response.Header), vo.headers) || !bytes.Equal(r.VerifiedPayload, vo.body) {
				c.Violation("accepted-altered-content", "Verifier.VerifyExchange", "exchange %q verified with content its signer did not vouch for (%s): status %d/%d headers %v/%v body %s/%s", u, what, e.Response.Status, vo.status, canon(e.Response.Header), vo.headers, core.Hex(r.VerifiedPayload), core.Hex(vo.body))
			}
			// the exchange that was accepted must itself carry the vouched content: decoded by
			// the reference under its own (vouched) Digest header, its body is the vouched
			// body - not merely "some earlier result". (A change that leaves the decoded
			// content intact, e.g. in the unauthenticated record-size field of a
			// single-record stream, is not an alteration of content.)
			if top, ok := refmice.ParseHeader(refmice.Draft03, vo.headers["digest"]); ok {
				if d := refmice.Decode(refmice.Draft03, e.Response.Body, top, 16384); !d.Complete || !bytes.Equal(d.Prefix, vo.body) {
					c.Violation("accepted-altered-body", "Verifier.VerifyExchange", "exchange %q verified although its body does not decode to the vouched body (%s)", u, what)
				}
			}
			if r.Authority == nil || r.Authority.Cert == nil || !bytes.Equal(r.Authority.Cert.Raw, s.leaf.DER) {
				c.Violation("wrong-authority", "Verifier.VerifyExchange", "exchange %q: reported authority is not its signer's leaf certificate %s (%s)", u, s.leaf.Name, what)
			}
			if t.Before(time.Unix(s.date, 0)) || t.After(time.Unix(s.date+s.duration, 0)) || s.duration > 604800 {
				c.Violation("accepted-outside-window", "Verifier.VerifyExchange", "exchange %q verified at t=%d outside its signer's window [%d,%d] / lifetime %d (%s)", u, t.Unix(), s.date, s.date+s.duration, s.duration, what)
			}
		}
	}
	if len(heldResults) > 0 && c.Chance("consumeAndVerifyAgain", 1, 3) {
		// the caller consumes (overwrites) the payloads it was handed, then verifies the
		// same exchanges again with the same Verifier: same verdicts, same payloads
		for i := range heldResults {
			h := &heldResults[i]
			if c.Oracle("C06") && !bytes.Equal(h.payload, h.want) {
				c.Violation("result-changed-later", "Verifier.VerifyExchange", "the verified payload returned for %q was modified by later VerifyExchange calls (%s)", h.url, what)
			}
			for j := range h.payload {
				h.payload[j] ^= 0x5a
			}
			h.want = append([]byte(nil), h.payload...)
		}
		again := 0
		for _, e := range b.Exchanges {
			var r *signature.VerifyExchangeResult
			var verr error
			if pi, _ := c.GuardAlloc("Verifier.VerifyExchange", func() { r, verr = v.VerifyExchange(e) }); pi != nil {
				if c.Oracle("C10", "C06") {
					c.CheckTotal("Verifier.VerifyExchange", len(w.file), pi, 0)
				}
				continue
			}
			if verr != nil || r == nil {
				continue
			}
			again++
			u := ""
			if e.Request.URL != nil {
				u = e.Request.URL.String()
			}
			if vo, covered := w.vouched[u]; c.Oracle("C06") && (!covered || !bytes.Equal(r.VerifiedPayload, vo.body)) {
				c.Violation("accepted-altered-content", "Verifier.VerifyExchange/again", "exchange %q, verified a second time after the caller had overwritten the first result, yields content its signer did not vouch for (%s)", u, what)
			}
		}
		if c.Oracle("C06") && again != res.accepted {
			c.Violation("verdict-changed", "Verifier.VerifyExchange/again", "%d exchanges verified the first time, %d the second time (%s)", res.accepted, again, what)
		}
		c.Probe("results overwritten by the caller, exchanges verified again")
	}
	return res, vout
}

func readBundle(c *core.Ctx, data []byte, plan core.ReaderPlan) (*bundle.Bundle, error) {
	sr := c.NewReader("disk", data, plan)
	var b *bundle.Bundle
	var err error
	pi, alloc := c.GuardAlloc("bundle.Read", func() { b, err = bundle.Read(sr) })
	if c.Oracle("C10") {
		c.CheckTotal("bundle.Read", len(data), pi, alloc)
	}
	if pi != nil {
		return nil, fmt.Errorf("panic: %s", pi.Value)
	}
	return b, err
}

// commonInstant returns a clock reading inside every signer's window.
func (w *world) commonInstant(c *core.Ctx) (time.Time, bool) {
	lo, hi := int64(-1<<62), int64(1<<62)
	loNs := int64(0)
	for _, s := range w.signers {
		if s.date > lo {
			lo, loNs = s.date, s.dateNs
		}
		if s.date+s.duration < hi {
			hi = s.date + s.duration
		}
	}
	if lo > hi {
		return time.Time{}, false
	}
	switch c.Pick("t.common", 4) {
	case 0:
		// the very moment the (latest) signer signed
		return time.Unix(lo, loNs), true
	case 1:
		return time.Unix(hi, 0), true
	}
	return time.Unix(lo+c.I64("t.off", 0, hi-lo), 0), true
}

func TestClean(t *testing.T) {
	rapid.Check(t, func(t *rapid.T) {
		core.Run(t, "bsig/clean", func(c *core.Ctx) {
			w := buildWorld(c, 1650000000, false)
			if w.hostOverlap() {
				c.Outcome("skipped")
				return
			}
			reload := c.Bool("reloadBetweenSigners")
			var err error
			if pi := c.Guard("signers", func() { err = w.sign(reload) }); pi != nil {
				c.CheckTotal("signers", 0, pi, 0)
			}
			if err != nil {
				if c.Oracle("C06") {
					c.Violation("sign-error", "signers", "%v", err)
				}
				return
			}
			tm, ok := w.commonInstant(c)
			if !ok {
				c.Outcome("skipped")
				return
			}
			// in the bundler's memory
			w.client(w.b, tm, "in memory", true)
			// after write -> disk -> read
			rb, rerr := readBundle(c, w.file, c.DrawReaderPlan("disk.read", len(w.file), false))
			if rerr != nil {
				if c.Oracle("C06") {
					c.Violation("read-error", "bundle.Read", "signed bundle rejected: %v", rerr)
				}
				return
			}
			res := w.client(rb, tm, "after write/read", true)
			// authority indexing: each vouched subset points at its own signer's leaf
			if c.Oracle("C06") {
				idx := 0
				for i, s := range w.signers {
					vs := rb.Signatures.VouchedSubsets[i]
					if int(vs.Authority) != idx || !bytes.Equal(rb.Signatures.Authorities[vs.Authority].Cert.Raw, s.leaf.DER) {
						c.Violation("authority-index", "Signer.UpdateSignatures", "vouched subset %d has authority index %d, its signer's leaf is at %d", i, vs.Authority, idx)
					}
					idx += s.chainLen
				}
				if err := refbundle.Strict(w.file); err != nil {
					c.Violation("malformed-output", "Bundle.WriteTo", "signed bundle: %v", err)
				}
			}
			c.SimTime(1)
			c.Outcome(fmt.Sprintf("nt:ok/a%d/u%d", res.accepted, res.unsigned))
			c.Sig("%s/k%d/reload%v", w.lb.Version, len(w.signers), reload)
		})
	})
}

func TestClock(t *testing.T) {
	rapid.Check(t, func(t *rapid.T) {
		core.Run(t, "bsig/clock", func(c *core.Ctx) {
			w := buildWorld(c, 1650000000, true)
			if w.hostOverlap() {
				c.Outcome("skipped")
				return
			}
			if c.Chance("lifetime.over", 1, 4) {
				i := c.Pick("lifetime.signer", len(w.signers))
				w.signers[i].duration = c.PickI64("lifetime.value", 604801, 1209600, 9300000000, 1<<40, 1<<32)
				c.Probe("lifetime > 604800")
			}
			if err := w.sign(false); err != nil {
				return
			}
			rb, rerr := readBundle(c, w.file, core.ReaderPlan{ErrAt: -1})
			if rerr != nil {
				return
			}
			n := c.Int("nverify", 1, 4)
			for i := 0; i < n; i++ {
				s := w.signers[c.Pick("clock.signer", len(w.signers))]
				var sec int64
				switch c.Pick("clock.at", 8) {
				case 0:
					sec = s.date - 1
					c.Fault("clock-skew-before-date")
				case 1:
					sec = s.date
					c.Probe("t == date")
				case 2:
					sec = s.date + s.duration
					c.Probe("t == expires")
				case 3:
					sec = s.date + s.duration + 1
					c.Fault("clock-skew-after-expires")
				case 4:
					sec = s.date - c.I64("clock.back", 2, 1000000)
					c.Fault("clock-jump-backward")
				case 5:
					sec = s.date + s.duration + c.I64("clock.fwd", 2, 1000000)
					c.Fault("clock-jump-forward")
				default:
					sec = s.date + c.I64("clock.in", 0, s.duration)
				}
				tm := time.Unix(sec, 0)
				// expected: the verifier exists iff t is inside every window and every lifetime <= 7 days
				want := true
				for _, sp := range w.signers {
					if sp.duration > 604800 || sec < sp.date || sec > sp.date+sp.duration {
						want = false
					}
				}
				res := w.client(rb, tm, fmt.Sprintf("clock t=%d", sec), want)
				if c.Oracle("C06") && !want && res.verifierErr == nil {
					c.Violation("accepted-outside-window", "signature.NewVerifier", "a verifier was created at t=%d although a signature is expired, not yet valid or longer than 7 days", sec)
				}
				c.SimTime(1)
				if want {
					c.Outcome("nt:valid")
				} else {
					c.Outcome("nt:refused")
				}
			}
			c.Sig("%s/k%d", w.lb.Version, len(w.signers))
		})
	})
}

func TestTamper(t *testing.T) {
	rapid.Check(t, func(t *rapid.T) {
		core.Run(t, "bsig/tamper", func(c *core.Ctx) {
			w := buildWorld(c, 1650000000, false)
			if w.hostOverlap() {
				c.Outcome("skipped")
				return
			}
			if err := w.sign(c.Bool("reloadBetweenSigners")); err != nil {
				return
			}
			tm, ok := w.commonInstant(c)
			if !ok {
				return
			}
			class := c.PickStr("tamper.class", "storage", "storage-meta", "storage-member-key", "field", "field", "field", "signatures", "signatures", "none")
			data := w.file
			what := class
			switch class {
			case "storage":
				n := c.Int("storage.n", 1, 2)
				for i := 0; i < n; i++ {
					data = c.CorruptBlob("storage.blob", data, nil)
				}
			case "storage-member-key":
				// one map key of the signatures section is garbled in place (same length, so
				// every length field and offset still holds): the member it named is absent
				keys := [][]byte{[]byte("\x64cert"), []byte("\x64ocsp"), []byte("\x63sct"), []byte("\x69authority"), []byte("\x63sig"), []byte("\x66signed")}
				var at [][2]int
				for ki, k := range keys {
					for off := 0; ; {
						i := bytes.Index(data[off:], k)
						if i < 0 {
							break
						}
						at = append(at, [2]int{off + i, ki})
						off += i + 1
					}
				}
				if len(at) > 0 {
					a := at[c.Pick("memberKey.which", len(at))]
					data = append([]byte(nil), data...)
					data[a[0]+1+c.Int("memberKey.char", 0, len(keys[a[1]])-2)] ^= 0x20 // other letter case: another key
					c.Fault("storage-garbled-map-key")
					what = "storage-member-key:" + string(keys[a[1]][1:])
				}
			case "storage-meta":
				if p, rj := refbundle.Parse(data); rj == nil {
					var fs []core.Field
					for _, f := range p.Fields {
						fs = append(fs, core.Field{Name: f.Name, Off: f.Off, Width: f.Width, Kind: f.Kind, Value: f.Value})
					}
					data, _, _ = c.CorruptField("storage.meta", data, fs)
				}
			}
			rb, rerr := readBundle(c, data, c.DrawReaderPlan("disk.read", len(data), false))
			if rerr != nil || rb == nil {
				c.Outcome("unreadable")
				c.Sig("%s", what)
				return
			}
			var earlier *signature.Verifier
			if class == "field" && c.Bool("reuseVerifier") {
				// the client verified the untouched bundle first and keeps its Verifier
				_, earlier = w.clientWith(nil, rb, tm, "before the edit", true)
				c.Probe("verifier reused after an edit")
			}
			if class == "field" || class == "signatures" {
				what = w.byzantine(c, rb, class)
			}
			res, _ := w.clientWith(earlier, rb, tm, what, class == "none")
			if c.Oracle("C06") && res.verifierErr == nil && rb.Signatures != nil && len(rb.Signatures.VouchedSubsets) > 0 &&
				(what == "sig:sig-bit" || what == "sig:sig-append" || what == "sig:signed-bit" || (what == "sig:swap-sig" && len(rb.Signatures.VouchedSubsets) >= 2)) {
				// any change to the signature bytes, or to the bytes they sign, must make verification fail
				c.Violation("altered-signature-accepted", "signature.NewVerifier", "the signatures section was accepted after %s", what)
			}
			switch {
			case res.verifierErr != nil:
				c.Outcome("verifier-refused")
			case res.rejected > 0:
				c.Outcome("exchange-refused")
			default:
				c.Outcome(fmt.Sprintf("a%d/u%d", res.accepted, res.unsigned))
			}
			c.Sig("%s/%s/k%d", w.lb.Version, what, len(w.signers))
		})
	})
}

// byzantine applies one semantic edit to the bundle the client holds.
func (w *world) byzantine(c *core.Ctx, b *bundle.Bundle, class string) string {
	if class == "signatures" && b.Signatures != nil && len(b.Signatures.VouchedSubsets) > 0 {
		sg := b.Signatures
		i := c.Pick("sig.subset", len(sg.VouchedSubsets))
		vs := sg.VouchedSubsets[i]
		op := c.PickStr("sig.op", "sig-bit", "sig-append", "signed-bit", "authority-index", "authorities-swap", "drop-subset", "dup-subset", "swap-sig", "signed-retime", "authority-drop", "authority-odd-key", "malicious-signer", "malicious-signer")
		switch op {
		case "sig-bit":
			if len(vs.Sig) > 0 {
				vs.Sig[c.Int("sig.off", 0, len(vs.Sig)-1)] ^= 1 << uint(c.Int("sig.bit", 0, 7))
			}
		case "sig-append":
			// bytes behind the complete DER signature
			vs.Sig = append(append([]byte(nil), vs.Sig...), c.Bytes("sig.extra", 1, 8)...)
		case "signed-bit":
			if len(vs.Signed) > 0 {
				vs.Signed[c.Int("sig.off", 0, len(vs.Signed)-1)] ^= 1 << uint(c.Int("sig.bit", 0, 7))
			}
		case "authority-index":
			vs.Authority = uint64(c.Int("sig.newAuthority", 0, len(sg.Authorities)+1))
		case "authorities-swap":
			if len(sg.Authorities) >= 2 {
				a, b2 := c.Pick("sig.a", len(sg.Authorities)), c.Pick("sig.b", len(sg.Authorities))
				sg.Authorities[a], sg.Authorities[b2] = sg.Authorities[b2], sg.Authorities[a]
			}
		case "authority-odd-key":
			// an authority whose certificate carries a key of a kind the format does not use
			if k := c.Pick("sig.a", len(sg.Authorities)); true {
				odd := fixtures.OddCerts[c.Pick("sig.odd", len(fixtures.OddCerts))]
				sg.Authorities[k] = &certurl.AugmentedCertificate{Cert: odd.Cert(), OCSPResponse: sg.Authorities[k].OCSPResponse}
			}
		case "authority-drop":
			k := c.Pick("sig.a", len(sg.Authorities))
			sg.Authorities = append(sg.Authorities[:k:k], sg.Authorities[k+1:]...)
		case "drop-subset":
			sg.VouchedSubsets = append(sg.VouchedSubsets[:i:i], sg.VouchedSubsets[i+1:]...)
		case "dup-subset":
			cp := *vs
			sg.VouchedSubsets = append(sg.VouchedSubsets, &cp)
		case "swap-sig":
			if len(sg.VouchedSubsets) >= 2 {
				j := (i + 1) % len(sg.VouchedSubsets)
				sg.VouchedSubsets[i].Sig, sg.VouchedSubsets[j].Sig = sg.VouchedSubsets[j].Sig, sg.VouchedSubsets[i].Sig
			}
		case "malicious-signer":
			// a signer that holds a valid key signs a structurally hostile signed subset:
			// a declared array / map count far beyond the data (the parser runs only after
			// the signature verified, so byte-level damage never reaches it)
			if i < len(w.signers) {
				if ns, ok := hostileSubset(c, vs.Signed); ok {
					sp := w.signers[i]
					alg, _ := verifhook.SigningAlgorithmForPrivateKey(sp.leaf.Key, fixtures.ConstReader{B: sp.entropy})
					msg := append(bytes.Repeat([]byte{0x20}, 64), []byte("Web Package 1 "+string(b.Version))...)
					msg = append(append(msg, 0), ns...)
					if sig, err := alg.Sign(msg); err == nil {
						vs.Signed, vs.Sig = ns, sig
						c.Probe("hostile signed subset with a valid signature")
					}
				}
			}
		case "signed-retime":
			// re-encode the signed subset with a shifted window, keeping the old signature
			if ss, err := decodeRetime(vs.Signed, c.PickI64("sig.shift", 1, -1, 1000000)); err == nil {
				vs.Signed = ss
			}
		}
		c.Fault("byzantine-signatures-edit")
		c.Event("signatures edit %s on subset %d", op, i)
		return "sig:" + op
	}
	if len(b.Exchanges) == 0 {
		return "none"
	}
	e := b.Exchanges[c.Pick("field.exchange", len(b.Exchanges))]
	op := c.PickStr("field.op", "body-bit", "body-last-byte", "status", "header-value", "header-add", "header-remove", "body-and-digest", "digest-only", "url-swap", "body-swap", "body-truncate-record", "content-encoding")
	switch op {
	case "body-bit":
		if len(e.Response.Body) > 0 {
			e.Response.Body[c.Int("field.off", 0, len(e.Response.Body)-1)] ^= 1 << uint(c.Int("field.bit", 0, 7))
		} else {
			e.Response.Body = []byte{1}
		}
	case "body-last-byte":
		if len(e.Response.Body) > 0 {
			e.Response.Body[len(e.Response.Body)-1] ^= 0xff
		}
	case "status":
		e.Response.Status = c.PickInt("field.status", 200, 201, 404, 500)
		if vo, ok := w.vouched[e.Request.URL.String()]; ok && vo.status == e.Response.Status {
			e.Response.Status++
		}
	case "header-value":
		ks := core.SortedKeys(map[string][]string(e.Response.Header))
		if len(ks) > 0 {
			k := ks[c.Pick("field.hdr", len(ks))]
			e.Response.Header[k] = []string{e.Response.Header[k][0] + "x"}
		}
	case "header-add":
		e.Response.Header.Add(c.PickDict("field.newhdr", []string{"X-Injected", "Signature", "Content-Length"}, core.HeaderNameRe), "evil")
	case "header-remove":
		ks := core.SortedKeys(map[string][]string(e.Response.Header))
		if len(ks) > 0 {
			delete(e.Response.Header, ks[c.Pick("field.hdr", len(ks))])
		}
	case "body-and-digest":
		evil := append([]byte("evil:"), e.Response.Body...)
		dg, stream := refmice.Encode(refmice.Draft03, evil, 16)
		e.Response.Body = stream
		e.Response.Header.Set("Digest", dg)
	case "digest-only":
		dg, _ := refmice.Encode(refmice.Draft03, []byte("other"), 16)
		e.Response.Header.Set("Digest", dg)
	case "url-swap":
		// present this response under another exchange's URL
		o := b.Exchanges[c.Pick("field.other", len(b.Exchanges))]
		if o != e {
			e.Request.URL, o.Request.URL = o.Request.URL, e.Request.URL
		} else {
			u2 := *e.Request.URL
			u2.Path += "x"
			e.Request.URL = &u2
		}
	case "body-swap":
		o := b.Exchanges[c.Pick("field.other", len(b.Exchanges))]
		e.Response.Body, o.Response.Body = o.Response.Body, e.Response.Body
	case "body-truncate-record":
		// cut the integrity-encoded body exactly behind a record or behind a proof
		rs := 16
		if vo, ok := w.vouched[e.Request.URL.String()]; ok {
			rs = w.signers[vo.signer].rs
		}
		n := len(e.Response.Body)
		if n > 8 {
			k := c.Int("field.records", 0, (n-8)/(rs+32)+1)
			cut := 8 + k*(rs+32)
			if c.Bool("field.cutAfterRecord") && k > 0 {
				cut = 8 + k*rs + (k-1)*32
			}
			if cut >= n {
				cut = n - 1
			}
			e.Response.Body = e.Response.Body[:cut]
			c.Probe("body cut at a record / proof boundary")
		}
	case "content-encoding":
		e.Response.Header.Set("Content-Encoding", "identity")
	}
	c.Fault("byzantine-field-edit")
	c.Event("field edit %s on %v", op, e.Request.URL)
	return "field:" + op
}

// hostileSubset rewrites one count inside an encoded signed subset (the
// subset-hashes map head, or the first per-URL array head) to a huge value.
func hostileSubset(c *core.Ctx, signed []byte) ([]byte, bool) {
	it, err := refcbor.Decode(signed, 0)
	if err != nil || it.Major != 5 {
		return nil, false
	}
	if n := len(it.Elems) / 2; n < 23 && it.HeadLen == 1 && c.Chance("hostile.extraKey", 1, 3) {
		// an extra member (the format allows them) under a key that sorts last, whose value is
		// nested very deeply: one byte of input per level, so any per-level cost that is not
		// small and bounded (a stack frame, an allocation) shows
		depth := c.PickInt("hostile.depth", 3, 200, 70000, 1<<20, 1<<20, 1<<23)
		key := "unknown-extension-member"
		out := append([]byte{0xa0 | byte(n+1)}, signed[1:]...)
		out = append(out, 0x78, byte(len(key)))
		out = append(out, key...)
		out = append(out, bytes.Repeat([]byte{0x81}, depth)...)
		out = append(out, 0x00)
		c.Fault("signed-subset-extra-member-nested-deeply")
		return out, true
	}
	for k := 0; k+1 < len(it.Elems); k += 2 {
		if string(it.Elems[k].Bytes) != "subset-hashes" {
			continue
		}
		m := it.Elems[k+1]
		target := m
		if len(m.Elems) >= 2 && c.Bool("hostile.array") {
			target = m.Elems[1]
		}
		nv := c.PickU64("hostile.count", 1<<62+1, 1<<25+1, 1<<32+1, 1<<63+1, 1<<31-1, ^uint64(0))
		return core.WidenCborField(signed, core.Field{Off: target.Off, Width: target.HeadLen - 1}, nv), true
	}
	return nil, false
}

// decodeRetime shifts date/expires inside an encoded signed subset by
// re-encoding the two integers in place (they keep their width for small shifts).
func decodeRetime(signed []byte, shift int64) ([]byte, error) {
	out := append([]byte(nil), signed...)
	for _, key := range []string{"date", "expires"} {
		k := append([]byte{0x60 | byte(len(key))}, key...)
		i := bytes.Index(out, k)
		if i < 0 || i+len(k)+5 > len(out) || out[i+len(k)] != 0x1a {
			return nil, fmt.Errorf("not found")
		}
		p := i + len(k) + 1
		v := int64(out[p])<<24 | int64(out[p+1])<<16 | int64(out[p+2])<<8 | int64(out[p+3])
		v += shift
		out[p], out[p+1], out[p+2], out[p+3] = byte(v>>24), byte(v>>16), byte(v>>8), byte(v)
	}
	return out, nil
}

var _ = version.VersionB1

// TestTwoVerifiers: two independently signed bundles, one Verifier each, and
// the client alternates VerifyExchange calls between them in a drawn order
// (two objects of one type used alternately): every result must be that of its
// own bundle, and stay intact afterwards.
func TestTwoVerifiers(t *testing.T) {
	rapid.Check(t, func(t *rapid.T) {
		core.Run(t, "bsig/two-verifiers", func(c *core.Ctx) {
			ws := []*world{buildWorld(c, 1650000000, false), buildWorld(c, 1650000000, false)}
			sharedChains = nil
			if c.Bool("shareChains") {
				sharedChains = map[string]certurl.CertChain{}
				// same signer set for both bundles, so that the shared chains are actually used
				// the first signer (and its CertChain value) is common to both bundles, the later
				// signers are each bundle's own
				own := ws[1].signers
				ws[1].signers = []signerSpec{ws[0].signers[0]}
				for _, sp := range own {
					dup := false
					for _, x := range ws[0].signers {
						if x.leaf == sp.leaf {
							dup = true
						}
					}
					if !dup && sp.leaf != ws[0].signers[0].leaf {
						ws[1].signers = append(ws[1].signers, sp)
					}
				}
				c.Probe("two bundles signed with the same CertChain values")
			}
			defer func() { sharedChains = nil }()
			if sharedChains != nil && c.Bool("interleaveSigners") && len(ws[0].signers) >= 2 && !ws[0].hostOverlap() && !ws[1].hostOverlap() {
				// order A1 B1 A2 B2 instead of A1 A2 B1 B2
				if signInterleaved(ws) != nil {
					return
				}
			}
			var vs []*signature.Verifier
			var bs []*bundle.Bundle
			for i, w := range ws {
				if w.hostOverlap() {
					c.Outcome("skipped")
					return
				}
				if w.b == nil {
					if err := w.sign(false); err != nil {
						return
					}
				}
				rb, err := readBundle(c, w.file, core.ReaderPlan{ErrAt: -1})
				if err != nil {
					return
				}
				tm, ok := w.commonInstant(c)
				if !ok {
					return
				}
				v, verr := signature.NewVerifier(rb.Signatures, tm, rb.Version)
				if verr != nil {
					if c.Oracle("C06") {
						c.Violation("verifier-refused", "signature.NewVerifier", "honest signatures of bundle %d refused: %v", i, verr)
					}
					return
				}
				vs, bs = append(vs, v), append(bs, rb)
			}
			type item struct{ w, e int }
			var items []item
			for wi, b := range bs {
				for ei := range b.Exchanges {
					items = append(items, item{wi, ei})
				}
			}
			type held struct {
				got, want []byte
				url       string
			}
			var helds []held
			var sched []byte
			for _, k := range c.Perm("order", len(items)) {
				it := items[k]
				w, e := ws[it.w], bs[it.w].Exchanges[it.e]
				sched = append(sched, byte('A'+it.w))
				var r *signature.VerifyExchangeResult
				var verr error
				if pi := c.Guard("Verifier.VerifyExchange", func() { r, verr = vs[it.w].VerifyExchange(e) }); pi != nil {
					c.CheckTotal("Verifier.VerifyExchange", len(w.file), pi, 0)
					continue
				}
				if !c.Oracle("C06") {
					continue
				}
				u := e.Request.URL.String()
				vo, covered := w.vouched[u]
				switch {
				case verr != nil:
					c.Violation("exchange-refused", "Verifier.VerifyExchange", "honest exchange %q of bundle %c refused under schedule %s: %v", u, 'A'+it.w, sched, verr)
				case r == nil && covered:
					c.Violation("covered-reported-unsigned", "Verifier.VerifyExchange", "exchange %q of bundle %c reported unsigned under schedule %s", u, 'A'+it.w, sched)
				case r != nil && !covered:
					c.Violation("uncovered-verified", "Verifier.VerifyExchange", "exchange %q of bundle %c verified although uncovered", u, 'A'+it.w)
				case r != nil:
					if !bytes.Equal(r.VerifiedPayload, vo.body) || !bytes.Equal(r.Authority.Cert.Raw, w.signers[vo.signer].leaf.DER) {
						c.Violation("accepted-altered-content", "Verifier.VerifyExchange", "exchange %q of bundle %c: wrong payload or authority under schedule %s", u, 'A'+it.w, sched)
					}
					helds = append(helds, held{r.VerifiedPayload, append([]byte(nil), r.VerifiedPayload...), u})
				}
			}
			if c.Oracle("C06") {
				for _, h := range helds {
					if !bytes.Equal(h.got, h.want) {
						c.Violation("result-changed-later", "Verifier.VerifyExchange", "the verified payload returned for %q was modified by later calls (schedule %s)", h.url, sched)
					}
				}
			}
			c.Outcome("nt:ok")
			c.Sig("%s", sched)
		})
	})
}

// signInterleaved signs two bundles signer by signer in alternation.
func signInterleaved(ws []*world) error {
	bs := []*bundle.Bundle{ws[0].lb.ToRepo(), ws[1].lb.ToRepo()}
	full := [][]signerSpec{ws[0].signers, ws[1].signers}
	n := len(full[0])
	if len(full[1]) > n {
		n = len(full[1])
	}
	for i := 0; i < n; i++ {
		for wi, w := range ws {
			if i >= len(full[wi]) {
				continue
			}
			w.signers = full[wi][i : i+1]
			// sign() starts from w.lb; emulate one step on the evolving bundle instead
			if err := w.signStep(bs[wi], full[wi][i], i); err != nil {
				w.signers = full[wi]
				return err
			}
		}
	}
	for wi, w := range ws {
		w.signers = full[wi]
		w.b = bs[wi]
		var buf bytes.Buffer
		if _, err := bs[wi].WriteTo(&buf); err != nil {
			return err
		}
		w.file = buf.Bytes()
	}
	return nil
}

// recordVouched notes, before signer i is applied, what it is about to vouch for
// (the model side of one signing step; shared by sign and signStep).
func (w *world) recordVouched(b *bundle.Bundle, signer *signature.Signer, s signerSpec, i int) {
	c := w.c
	for j, e := range b.Exchanges {
		// (coverage is judged by crypto/x509 on the URL's host name, not by the signer)
		if can := signer.CanSignForURL(e.Request.URL); can != covers(s.leaf, e.Request.URL) && c.Oracle("C06") {
			c.Violation("coverage-misjudged", "Signer.CanSignForURL", "CanSignForURL(%q) = %v, the certificate of %s (names %v) says %v", e.Request.URL, can, s.leaf.Name, s.leaf.Hosts, !can)
		}
		if !covers(s.leaf, e.Request.URL) {
			continue
		}
		if e.Response.Header.Get("Digest") != "" {
			// not signable as it stands (the tool skips it); if the library nevertheless signs
			// it, the exchange-refused / altered-content clauses judge the outcome
			if _, err := (&bundle.Exchange{Request: e.Request, Response: bundle.Response{Status: e.Response.Status, Header: e.Response.Header.Clone(), Body: e.Response.Body}}).AddPayloadIntegrity(b.Version, s.rs); err != nil {
				continue
			}
		}
		le := w.lb.Exchanges[w.indexOf(e.Request.URL.String(), j)]
		if _, dup := w.vouched[le.URL]; dup {
			continue
		}
		hdr := le.Resp.Canon()
		dg, _ := refmice.Encode(refmice.Draft03, le.Resp.Body, s.rs)
		hdr["content-encoding"] = "mi-sha256-03"
		hdr["digest"] = dg
		w.vouched[le.URL] = vouched{signer: i, status: le.Resp.Status, headers: hdr, body: le.Resp.Body}
	}
}

// signStep applies one signer to an evolving bundle (the loop body of sign).
func (w *world) signStep(b *bundle.Bundle, s signerSpec, i int) error {
	vu, _ := url.Parse("https://" + s.leaf.Hosts[0] + "/validity")
	signer, err := signature.NewSigner(b.Version, w.chain(s), s.leaf.Key, vu, time.Unix(s.date, s.dateNs), time.Duration(s.duration)*time.Second)
	if err != nil {
		return err
	}
	signer.Algorithm, _ = verifhook.SigningAlgorithmForPrivateKey(s.leaf.Key, fixtures.ConstReader{B: s.entropy})
	w.recordVouched(b, signer, s, i)
	return addSignature(b, signer, s.rs)
}

// TestScale: one covered resource of 16 MiB and a little more (a download-sized
// body): signed, verified in memory and after write / re-read - the verified
// payload is the whole body - and then with the last byte of the stored body
// flipped, which must be noticed. Few runs, each large.
func TestScale(t *testing.T) {
	rapid.Check(t, func(t *rapid.T) {
		core.Run(t, "bsig/scale", func(c *core.Ctx) {
			w := &world{c: c, vouched: map[string]vouched{}}
			leaf := fixtures.ByName(c.PickStr("scale.leaf", "a-p256", "b-p384"))
			u := "https://" + leaf.Hosts[0] + "/big"
			n := c.PickInt("scale.len", 1<<24+4096, 1<<24+1, 1<<24, 1<<20+1)
			body := make([]byte, n)
			core.FillPattern(body, c.U64("scale.pat", 0, ^uint64(0)))
			lb := &gen.LBundle{Order: map[string][]int{u: {0}}, Version: c.PickStr("bundle.version", "b1", "b2"), Primary: u}
			lb.Exchanges = []gen.LExchange{{URL: u, Resp: gen.LResp{Status: 200, Headers: []gen.HV{{Name: "Content-Type", Value: "application/octet-stream"}}, Body: body}}}
			w.lb = lb
			w.signers = []signerSpec{{leaf: leaf, date: 1650000000, duration: 3600, rs: 16384, chainLen: 2, entropy: byte(c.Int("signer.entropy", 0, 255))}}
			if err := w.sign(false); err != nil {
				if c.Oracle("C06") {
					c.Violation("sign-error", "signers", "%v", err)
				}
				return
			}
			tm := time.Unix(1650000010, 0)
			w.client(w.b, tm, "large body, in memory", true)
			rb, rerr := readBundle(c, w.file, core.ReaderPlan{ErrAt: -1})
			if rerr != nil {
				if c.Oracle("C06") {
					c.Violation("read-error", "bundle.Read", "signed bundle rejected: %v", rerr)
				}
				return
			}
			w.client(rb, tm, "large body, after write/read", true)
			eb := rb.Exchanges[0].Response.Body
			eb[len(eb)-1-c.Int("scale.flipBack", 0, 50)] ^= 0x10
			c.Fault("storage-bitflip-in-last-record")
			w.client(rb, tm, "bit flip near the end of a large body", false)
			c.Outcome("nt:ok")
			c.Sig("scale/%s/%d", lb.Version, n)
		})
	})
}
