// World W-SXG: a publisher signs exchanges at its own clock; the serialized
// files and certificate chains sit on simulated storage / a certificate server;
// a client reads and verifies them at its own clock. Properties C02 (clean),
// C01 (tamper, clock), C09 (policy), C10 (watchdog on the fault configurations).
package sxg

import (
	"crypto/rsa"
	"bytes"
	"crypto/sha256"
	"encoding/base64"
	"errors"
	"fmt"
	"io"
	"log"
	"net/http"
	"net/url"
	"regexp"
	"strings"
	"testing"
	"time"

	"github.com/WICG/webpackage/go/signedexchange"
	"github.com/WICG/webpackage/go/signedexchange/version"
	"pgregory.net/rapid"
	"verifsim/core"
	"verifsim/fixtures"
	"verifsim/gen"
	"verifsim/ref/refcbor"
	"verifsim/ref/refmice"
	"verifsim/ref/refsxg"
)

func TestMain(m *testing.M) { core.Main(m) }

var quiet = log.New(io.Discard, "", 0)

var certShaRe = regexp.MustCompile(`cert-sha256=\*([A-Za-z0-9+/=]*)\*`)

// ---- certificate server ---------------------------------------------------------

type certNet struct {
	c       *core.Ctx
	blobs   map[string][]byte
	fail    bool
	served  []byte // last blob served
	fetches int
	// seq: answers the server gives to the next requests for a URL, one per request,
	// before it falls back to blobs (a server that answers inconsistently)
	seq map[string][][]byte
}

func newCertNet(c *core.Ctx) *certNet {
	n := &certNet{c: c, blobs: map[string][]byte{}}
	for _, l := range fixtures.Leaves {
		n.blobs["https://cert.example/"+l.Name+".cbor"] = gen.ChainBytes(l, []byte("ocsp-"+l.Name))
	}
	return n
}

func (n *certNet) fetch(u string) ([]byte, error) {
	n.fetches++
	if n.fail {
		return nil, errors.New("sim: certificate server unreachable")
	}
	if q := n.seq[u]; len(q) > 0 {
		n.seq[u] = q[1:]
		n.c.Fault("certnet-answers-differ-between-requests")
		n.served = q[0]
		return q[0], nil
	}
	b, ok := n.blobs[u]
	if !ok {
		return nil, errors.New("sim: 404")
	}
	n.served = b
	return b, nil
}

// leafOf extracts the first certificate's DER from a cert-chain+cbor blob
// with the reference CBOR decoder.
func leafOf(blob []byte) []byte {
	it, err := refcbor.Decode(blob, 0)
	if err != nil || it.Major != 4 || len(it.Elems) < 2 || it.Elems[1].Major != 5 {
		return nil
	}
	m := it.Elems[1]
	for i := 0; i+1 < len(m.Elems); i += 2 {
		if string(m.Elems[i].Bytes) == "cert" {
			return m.Elems[i+1].Bytes
		}
	}
	return nil
}

// ---- helpers ---------------------------------------------------------------------

func cloneExchange(e *signedexchange.Exchange) *signedexchange.Exchange {
	c := *e
	c.RequestHeaders = e.RequestHeaders.Clone()
	c.ResponseHeaders = e.ResponseHeaders.Clone()
	if c.RequestHeaders == nil {
		c.RequestHeaders = http.Header{}
	}
	c.Payload = append([]byte(nil), e.Payload...)
	return &c
}

func sameMap(a, b map[string]string) bool {
	if len(a) != len(b) {
		return false
	}
	for _, k := range core.SortedKeys(a) {
		if v, ok := b[k]; !ok || v != a[k] {
			return false
		}
	}
	return true
}

type verdict struct {
	payload []byte
	ok      bool
	pi      *core.PanicInfo
	alloc   uint64
}

func verify(c *core.Ctx, e *signedexchange.Exchange, t time.Time, n *certNet) verdict {
	var v verdict
	n.served = nil // what the certificate server hands out during THIS verification
	v.pi, v.alloc = c.GuardAlloc("Exchange.Verify", func() { v.payload, v.ok = e.Verify(t, n.fetch, quiet) })
	return v
}

func readFile(c *core.Ctx, data []byte, plan core.ReaderPlan) (*signedexchange.Exchange, error, *core.PanicInfo, uint64) {
	sr := c.NewReader("cdn", data, plan)
	src, _ := c.WrapSource("cdn", sr)
	var e *signedexchange.Exchange
	var err error
	pi, alloc := c.GuardAlloc("ReadExchange", func() { e, err = signedexchange.ReadExchange(src) })
	return e, err, pi, alloc
}

// contentEquals reports whether what the client holds (exchange e plus the
// payload Verify handed back) is exactly what publisher object l signed.
func contentEquals(e *signedexchange.Exchange, payload []byte, l *gen.LSXG) bool {
	if string(e.Version) != l.Version || e.RequestURI != l.URL || e.ResponseStatus != l.Status {
		return false
	}
	resp, ok := gen.CanonHeader(e.ResponseHeaders)
	if !ok || !sameMap(resp, l.SignedResp) {
		return false
	}
	if l.Version != "1b3" {
		req, ok := gen.CanonHeader(e.RequestHeaders)
		if !ok || e.RequestMethod != l.Method || !sameMap(req, l.SignedReq) {
			return false
		}
	}
	return bytes.Equal(payload, l.Payload)
}

func inWindow(t time.Time, l *gen.LSXG) bool {
	return !t.Before(time.Unix(l.Date, 0)) && !t.After(time.Unix(l.Expires, 0))
}

// ---- C02: clean round trip ----------------------------------------------------------

func instants(c *core.Ctx, l *gen.LSXG) []time.Time {
	var ts []time.Time
	if l.Expires-l.Date <= 64 {
		for s := l.Date; s <= l.Expires; s++ {
			ts = append(ts, time.Unix(s, 0))
		}
		core.ExhaustiveDone("C02: every whole-second instant of a validity window <= 64 s", 1)
		return ts
	}
	mid := l.Date + c.I64("t.mid", 1, l.Expires-l.Date-1)
	return []time.Time{time.Unix(l.Date, 0), time.Unix(l.Date, 1), time.Unix(l.Date+1, 0), time.Unix(mid, c.I64("t.ns", 0, 999999999)), time.Unix(l.Expires-1, 999999999), time.Unix(l.Expires, 0)}
}

func TestClean(t *testing.T) {
	rapid.Check(t, func(t *rapid.T) {
		core.Run(t, "sxg/clean", func(c *core.Ctx) {
			defer c.LocalZone("process")()
			l := gen.DrawSXG(c, "sxg", 1)
			c.Event("%s", l.Describe())
			var pub *signedexchange.Exchange
			var err error
			if c.Chance("earlierFailedDump", 1, 4) {
				// history: some earlier, unrelated serialization in this process hit a failing device
				o := gen.DrawSXG(c, "earlier", 3)
				var hb bytes.Buffer
				oe := o.Unsigned()
				if oe.DumpExchangeHeaders(&hb) == nil && hb.Len() > 0 {
					fw := c.NewWriter("earlier", core.WriterPlan{FailAt: c.Int("earlier.failAt", 0, hb.Len()-1), Short: c.Bool("earlier.short")})
					c.Guard("Exchange.DumpExchangeHeaders", func() { oe.DumpExchangeHeaders(fw) })
					c.Probe("an earlier serialization failed part-way")
				}
			}
			if c.Chance("sharedCertURL", 1, 3) {
				// the publisher rotates certificates at one stable cert-url
				l.CertURL = "https://cert.example/current.cbor"
			}
			if c.Chance("reusedSigner", 1, 4) {
				// the publisher keeps one Signer object and has just used it for an exchange of
				// another format version (same certificate, validity URL, date and expiry)
				l.SignerObj = l.Signer()
				sib := *l
				for _, v := range []string{"1b1", "1b2", "1b3"} {
					if v != l.Version && c.Bool("reusedSigner.first."+v) {
						sib.Version = v
						if v == "1b3" {
							sib.Method, sib.ReqHeaders = "GET", nil
						}
						sib.Sign()
					}
				}
				c.Probe("one Signer object used for several versions")
			}
			if c.Chance("caseCollision", 1, 10) {
				l.Collide = c.Int("caseCollision.n", 1, 3)
				c.Probe("header map with keys differing only in letter case")
				caseCollision(c, l)
				return
			}
			if pi := c.Guard("publisher.Sign", func() { pub, err = l.Sign() }); pi != nil {
				c.CheckTotal("publisher.Sign", 0, pi, 0)
			}
			if err != nil {
				c.Violation("sign-error", "publisher", "library refused a valid exchange: %v", err)
			}
			net := newCertNet(c)
			net.blobs[l.CertURL] = gen.ChainBytes(l.Leaf, []byte("ocsp-"+l.Leaf.Name))
			// write once more through a simulated destination
			wp := core.WriterPlan{FailAt: -1, ReaderFrom: c.Bool("dst.readerFrom")}
			w := c.NewWriter("disk", wp)
			if pi := c.Guard("Exchange.Write", func() { err = pub.Write(w) }); pi != nil {
				c.CheckTotal("Exchange.Write", 0, pi, 0)
			}
			file := core.Unwrap(w).Accepted
			if c.Oracle("C02") {
				if err != nil {
					c.Violation("write-error", "Exchange.Write", "%v", err)
				}
				if !bytes.Equal(file, l.File) {
					c.Violation("write-nondeterministic", "Exchange.Write", "two writes of the same exchange differ")
				}
			}
			plan := c.DrawReaderPlan("cdn", len(file), false)
			c.Event("reader plan %v", plan)
			rd, rerr, pi, _ := readFile(c, file, plan)
			if pi != nil {
				c.CheckTotal("ReadExchange", len(file), pi, 0)
			}
			if c.Oracle("C02") {
				if rerr != nil {
					c.Violation("read-error", "ReadExchange", "reader rejected the writer's output: %v", rerr)
				}
				checkReadBack(c, rd, l, "ReadExchange")
				rf, perr := refsxg.Parse(file)
				if perr != nil {
					c.Violation("ref-parse", "refsxg", "independent parser rejects the file: %v", perr)
				}
				if rf.Version != l.Version || rf.URL != l.URL || rf.Signature != l.SigHeader || !bytes.Equal(rf.Payload, l.EncPayload) || rf.Status != fmt.Sprint(l.Status) || !sameMap(rf.Resp, l.SignedResp) {
					c.Violation("ref-mismatch", "refsxg", "independent parser reads different fields (version %s url %q status %s)", rf.Version, rf.URL, rf.Status)
				}
				if l.Version != "1b3" && (rf.Method != l.Method || !sameMap(rf.Req, l.SignedReq)) {
					c.Violation("ref-mismatch", "refsxg", "independent parser reads a different request (method %q)", rf.Method)
				}
				// the MI layer of the payload is what the reference produces
				d := refmice.Draft03
				if l.Version == "1b1" {
					d = refmice.Draft02
				}
				dg, stream := refmice.Encode(d, l.Payload, l.RS)
				if !bytes.Equal(stream, l.EncPayload) || l.SignedResp[strings.ToLower(d.HeaderName())] != dg {
					c.Violation("mi-mismatch", "MiEncodePayload", "payload encoding or digest header differ from the reference")
				}
			}
			if rerr != nil || rd == nil {
				return
			}
			if c.Bool("twoStepRead") {
				// the streaming way of reading: the prologue first, then the payload from the SAME
				// reader (which offers nothing but Read): nothing of the payload may have been
				// taken by the first step
				sr := c.NewReader("cdn2", file, c.DrawReaderPlan("cdn2", len(file), false))
				var pe *signedexchange.Exchange
				var perr error
				if pi := c.Guard("ReadExchangePrologue", func() { pe, perr = signedexchange.ReadExchangePrologue(sr) }); pi != nil {
					c.CheckTotal("ReadExchangePrologue", len(file), pi, 0)
				}
				rest, rerr2 := io.ReadAll(sr)
				if c.Oracle("C02") {
					if perr != nil || rerr2 != nil {
						c.Violation("read-error", "ReadExchangePrologue", "two-step read of the writer's output failed: %v / %v", perr, rerr2)
					}
					if !bytes.Equal(rest, l.EncPayload) {
						c.Violation("readback", "ReadExchangePrologue+payload", "after the prologue the same reader yields %d payload bytes, the file holds %d", len(rest), len(l.EncPayload))
					}
					pe.Payload = rest
					checkReadBack(c, pe, l, "ReadExchangePrologue+payload")
				}
				c.Probe("two-step read: prologue, then payload from the same reader")
			}
			// history: another file is read in between; the first result must still be the model
			if c.Bool("readOtherInBetween") {
				o := gen.DrawSXG(c, "other", 2)
				if _, err := o.Sign(); err == nil {
					readFile(c, o.File, core.ReaderPlan{ErrAt: -1})
					if c.Oracle("C02") {
						checkReadBack(c, rd, l, "ReadExchange/earlier-result-after-later-read")
					}
				}
			}
			if c.Chance("refusedResign", 1, 4) {
				// history: the publisher tries to sign the same object once more with a signer
				// the library must refuse (its signing device fails, or its cert-url is not
				// acceptable); the object stays what it was: signed, verifiable, writable
				bad := l.Signer()
				if c.Bool("refusedResign.algorithmFails") {
					bad.Algorithm = failingAlg{}
				} else {
					bad.CertUrl, _ = url.Parse("http://cert.example/plain-http.cbor")
				}
				var rerr2 error
				c.Guard("Exchange.AddSignatureHeader", func() { rerr2 = pub.AddSignatureHeader(bad) })
				if rerr2 != nil {
					if c.Oracle("C02") && pub.SignatureHeaderValue != l.SigHeader {
						c.Violation("refused-call-changed-the-exchange", "Exchange.AddSignatureHeader", "a refused signing attempt (%v) replaced the exchange's Signature header (%d -> %d bytes)", rerr2, len(l.SigHeader), len(pub.SignatureHeaderValue))
					}
					c.Probe("a second signing attempt was refused")
				} else {
					// (accepted after all: the object now carries another, equally valid signature)
					pub.SignatureHeaderValue = l.SigHeader
				}
			}
			if c.Chance("repairedSigner", 1, 6) {
				// history on ONE Signer object: its first use is refused (the configured key is of a
				// kind the format does not support, and no Algorithm was preset), the operator
				// repairs the key, the next use must work like a fresh Signer's
				s := l.Signer()
				s.Algorithm = nil
				s.PrivKey = &rsa.PrivateKey{}
				scratch := l.Unsigned()
				var e1, e2 error
				if scratch.MiEncodePayload(l.RS) == nil {
					c.Guard("Exchange.AddSignatureHeader", func() { e1 = scratch.AddSignatureHeader(s) })
					s.PrivKey = l.Leaf.Key
					pi := c.Guard("Exchange.AddSignatureHeader", func() { e2 = scratch.AddSignatureHeader(s) })
					if c.Oracle("C02") && e1 != nil {
						if pi != nil || e2 != nil {
							c.Violation("sign-error", "Exchange.AddSignatureHeader/repaired-signer", "a Signer whose key was repaired after a refused first use still fails: %v %v", e2, pi)
						}
						if v := verify(c, scratch, time.Unix(l.Date, 0), net); !v.ok || !bytes.Equal(v.payload, l.Payload) {
							c.Violation("verify-failed", "Exchange.Verify/repaired-signer", "the exchange signed by a repaired Signer does not verify")
						}
					}
					c.Probe("Signer repaired after a refused first use")
				}
			}
			for _, tm := range instants(c, l) {
				for i, e := range []*signedexchange.Exchange{pub, rd} {
					v := verify(c, e, tm, net)
					if v.pi != nil {
						c.CheckTotal("Exchange.Verify", len(file), v.pi, v.alloc)
					}
					if c.Oracle("C02") {
						if !v.ok {
							c.Violation("verify-failed", "Exchange.Verify", "honest exchange (%s round trip) rejected at t=%d.%09d, window [%d,%d]", []string{"before", "after"}[i], tm.Unix(), tm.Nanosecond(), l.Date, l.Expires)
						}
						if !bytes.Equal(v.payload, l.Payload) {
							c.Violation("verify-payload", "Exchange.Verify", "returned payload differs from the original (%d vs %d bytes)", len(v.payload), len(l.Payload))
						}
					}
					// the returned payload is the caller's: it consumes (here: overwrites) it at once,
					// which must not reach into the exchange it verifies again at the next instant
					for j := range v.payload {
						v.payload[j] ^= 0x5a
					}
				}
				c.SimTime(1)
			}
			c.SimTime(l.Expires - l.Date)
			c.Outcome("nt:ok")
			c.Sig("%s/%s/rs%d/m%d/rf%v", l.Version, l.Leaf.Name, l.RS, plan.Mode, wp.ReaderFrom)
		})
	})
}

type failingAlg struct{}

func (failingAlg) Sign(m []byte) ([]byte, error) { return nil, errors.New("sim: signing device failed") }

// caseCollision: a header map whose keys differ only in letter case. The library
// may refuse it; whatever it agrees to sign and write must read back and verify,
// with one verdict before and after the round trip. The flow is repeated because
// the order in which Go visits the colliding keys differs from call to call.
func caseCollision(c *core.Ctx, l *gen.LSXG) {
	net := newCertNet(c)
	net.blobs[l.CertURL] = gen.ChainBytes(l.Leaf, []byte("ocsp-"+l.Leaf.Name))
	const rounds = 8
	refused, good, bad := 0, 0, 0
	var first string
	for i := 0; i < rounds; i++ {
		var pub *signedexchange.Exchange
		var err error
		if pi := c.Guard("publisher.Sign", func() { pub, err = l.Sign() }); pi != nil {
			c.CheckTotal("publisher.Sign", 0, pi, 0)
		}
		if err != nil {
			refused++
			continue
		}
		rd, rerr, pi, _ := readFile(c, l.File, core.ReaderPlan{ErrAt: -1})
		if pi != nil {
			c.CheckTotal("ReadExchange", len(l.File), pi, 0)
		}
		if !c.Oracle("C02") {
			continue
		}
		if rerr != nil {
			c.Violation("read-error", "ReadExchange/case-collision", "reader rejected the writer's output: %v", rerr)
		}
		for j, e := range []*signedexchange.Exchange{pub, rd} {
			v := verify(c, e, time.Unix(l.Date, 0), net)
			if v.ok && bytes.Equal(v.payload, l.Payload) {
				good++
			} else {
				bad++
				if first == "" {
					first = fmt.Sprintf("round %d, %s the round trip", i, []string{"before", "after"}[j])
				}
			}
		}
	}
	c.Event("case-colliding header keys: refused %d of %d, verified %d, rejected %d", refused, rounds, good, bad)
	if c.Oracle("C02") {
		if refused != 0 && refused != rounds {
			c.Violation("refusal-depends-on-map-order", "publisher/case-collision", "the same header map was refused %d times and signed %d times", refused, rounds-refused)
		}
		if bad > 0 && good > 0 {
			c.Violation("verdict-depends-on-map-order", "Exchange.Verify/case-collision", "an exchange the library signed and wrote verified %d times and was rejected %d times (first: %s)", good, bad, first)
		}
		if bad > 0 {
			c.Violation("verify-failed", "Exchange.Verify/case-collision", "an exchange the library signed and wrote does not verify (%s)", first)
		}
	}
	if refused == rounds {
		c.Outcome("nt:refused-case-collision")
	} else {
		c.Outcome("nt:signed-case-collision")
	}
	c.Sig("collide/%s/%d/%v", l.Version, l.Collide, refused == rounds)
}

func checkReadBack(c *core.Ctx, rd *signedexchange.Exchange, l *gen.LSXG, site string) {
	if rd == nil {
		return
	}
	if string(rd.Version) != l.Version {
		c.Violation("readback", site, "version %q, wrote %q", rd.Version, l.Version)
	}
	if rd.RequestURI != l.URL {
		c.Violation("readback", site, "URL %q, wrote %q", rd.RequestURI, l.URL)
	}
	if wantMethod := map[bool]string{true: "GET", false: l.Method}[l.Version == "1b3"]; rd.RequestMethod != wantMethod {
		// (1b3 has no method on the wire: a 1b3 file reads back as GET)
		c.Violation("readback", site, "method %q, wrote %q", rd.RequestMethod, wantMethod)
	}
	if rd.ResponseStatus != l.Status {
		c.Violation("readback", site, "status %d, wrote %d", rd.ResponseStatus, l.Status)
	}
	if rd.SignatureHeaderValue != l.SigHeader {
		c.Violation("readback", site, "Signature header differs")
	}
	if !bytes.Equal(rd.Payload, l.EncPayload) {
		c.Violation("readback", site, "payload bytes differ (%d vs %d)", len(rd.Payload), len(l.EncPayload))
	}
	resp, ok := gen.CanonHeader(rd.ResponseHeaders)
	if !ok || !sameMap(resp, l.SignedResp) {
		c.Violation("readback", site, "response headers %v, wrote %v", resp, l.SignedResp)
	}
	if l.Version != "1b3" {
		req, ok := gen.CanonHeader(rd.RequestHeaders)
		if !ok || !sameMap(req, l.SignedReq) {
			c.Violation("readback", site, "request headers %v, wrote %v", req, l.SignedReq)
		}
	}
}

// TestLengthBoundaries: URL / Signature header / header block lengths on both
// sides of the 2- and 3-byte length fields and of the spec limits.
func TestLengthBoundaries(t *testing.T) {
	rapid.Check(t, func(t *rapid.T) {
		core.Run(t, "sxg/length-boundaries", func(c *core.Ctx) {
			l := gen.DrawSXG(c, "sxg", 1)
			l.Payload = l.Payload[:min(len(l.Payload), 40)]
			what := c.PickStr("boundary.field", "url", "sig", "headers")
			delta := c.PickInt("boundary.delta", -1, 0, 1, 2)
			var limit int
			big := false
			switch what {
			case "url":
				if l.Version == "1b1" {
					what = "headers"
					limit = 1<<24 - 1
					big = true
				} else {
					limit = 65535
				}
			case "sig":
				limit = 16384
				if l.Version == "1b1" {
					limit, big = 1<<24-1, true
				}
			case "headers":
				limit = 524288
				if l.Version == "1b1" {
					limit, big = 1<<24-1, true
				}
			}
			if big && !c.Chance("boundary.big", 1, 12) {
				// 16 MiB artifacts are sampled sparingly
				c.Outcome("skipped")
				return
			}
			target := limit + delta
			if what == "headers" && l.Version == "1b1" && false {
				return
			}
			e := l.Unsigned()
			if err := e.MiEncodePayload(l.RS); err != nil {
				return
			}
			s := l.Signer()
			measure := func() int {
				switch what {
				case "url":
					return len(e.RequestURI)
				case "sig":
					return len(e.SignatureHeaderValue)
				default:
					var b bytes.Buffer
					e.DumpExchangeHeaders(&b)
					return b.Len()
				}
			}
			pad := func(n int) {
				p := strings.Repeat("p", n)
				switch what {
				case "url":
					e.RequestURI = l.URL + "/" + p
				case "sig":
					s.CertUrl, _ = url.Parse(l.CertURL + "/" + p)
				default:
					e.ResponseHeaders.Set("X-Pad", p)
				}
			}
			// two-step fit: the measured length is affine in the pad length except at CBOR head-size steps
			guess := target
			for i := 0; i < 6; i++ {
				if guess < 0 {
					guess = 0
				}
				pad(guess)
				if what == "sig" || i == 0 {
					if err := e.AddSignatureHeader(s); err != nil {
						return
					}
				}
				got := measure()
				if got == target {
					break
				}
				guess += target - got
			}
			if err := e.AddSignatureHeader(s); err != nil {
				return
			}
			got := measure()
			if got != target {
				c.Outcome("skipped")
				return
			}
			c.Probe(fmt.Sprintf("length boundary %s %s limit%+d", l.Version, what, delta))
			c.Event("%s %s length %d (limit %d)", l.Version, what, got, limit)
			w := c.NewWriter("disk", core.WriterPlan{FailAt: -1})
			var err error
			if pi := c.Guard("Exchange.Write", func() { err = e.Write(w) }); pi != nil {
				c.CheckTotal("Exchange.Write", 0, pi, 0)
			}
			file := core.Unwrap(w).Accepted
			over := got > limit
			if c.Oracle("C02") {
				if over && err == nil {
					// the write claimed success: the file must then read back identically; it cannot
					rd, rerr, _, _ := readFile(c, file, core.ReaderPlan{ErrAt: -1})
					same := rerr == nil && rd != nil && rd.RequestURI == e.RequestURI && rd.SignatureHeaderValue == e.SignatureHeaderValue && bytes.Equal(rd.Payload, e.Payload)
					if !same {
						c.Violation("oversize-written", "Exchange.Write/"+what, "%s of %d bytes (limit %d) was written without error and does not read back identically (read error: %v)", what, got, limit, rerr)
					}
					c.Violation("limit-not-enforced", "Exchange.Write/"+what, "%s of %d bytes exceeds the limit %d but was written without error", what, got, limit)
				}
				if !over {
					if err != nil {
						c.Violation("write-error", "Exchange.Write/"+what, "%s of %d bytes (limit %d) refused: %v", what, got, limit, err)
					}
					rd, rerr, pi, _ := readFile(c, file, c.DrawReaderPlan("cdn", len(file), false))
					if pi != nil {
						c.CheckTotal("ReadExchange", len(file), pi, 0)
					}
					if rerr != nil {
						c.Violation("read-error", "ReadExchange/"+what, "file with %s of %d bytes rejected: %v", what, got, rerr)
					}
					if rd.RequestURI != e.RequestURI || rd.SignatureHeaderValue != e.SignatureHeaderValue || !bytes.Equal(rd.Payload, e.Payload) || rd.ResponseHeaders.Get("X-Pad") != e.ResponseHeaders.Get("X-Pad") {
						c.Violation("readback", "ReadExchange/"+what, "file with %s of %d bytes reads back differently", what, got)
					}
				}
			}
			c.Outcome("nt:" + what)
			c.Sig("%s/%s/%d", l.Version, what, delta)
		})
	})
}

func min(a, b int) int {
	if a < b {
		return a
	}
	return b
}

// ---- C01: tamper / clock ----------------------------------------------------------------

type world struct {
	c    *core.Ctx
	pubs []*gen.LSXG
	net  *certNet
	// clockShift: the attacker moved the (unsigned) date and expires parameters by this
	// many seconds; the client's clock is read relative to the moved window
	clockShift int64
}

func publish(c *core.Ctx, n int) *world {
	w := &world{c: c, net: newCertNet(c)}
	for i := 0; i < n; i++ {
		l := gen.DrawSXG(c, fmt.Sprintf("sxg%d", i), i+1)
		if i > 0 && c.Chance("sameURL", 1, 3) {
			// a newer version of the same URL by the same publisher (stale-cache scenario)
			prev := w.pubs[c.Pick("sameURL.of", len(w.pubs))]
			l.URL, l.Leaf, l.Version = prev.URL, prev.Leaf, prev.Version
			l.CertURL = prev.CertURL
			l.ValidityURL = prev.ValidityURL
			if l.Version == "1b3" {
				l.Method, l.ReqHeaders = "GET", nil
			} else if l.Method != "GET" && l.Method != "HEAD" {
				l.Method = "GET" // (drawn for a 1b3 object, where the method is not part of the exchange)
			}
			l.Date = prev.Expires + c.I64("sameURL.gap", 1, 1000)
			l.Expires = l.Date + 3600
		}
		if _, err := l.Sign(); err != nil {
			c.Violation("sign-error", "publisher", "library refused a valid exchange: %v", err)
		}
		c.Event("published #%d %s", i, l.Describe())
		w.pubs = append(w.pubs, l)
	}
	return w
}

// clientTime draws the client's clock reading relative to the victim's window.
func clientTime(c *core.Ctx, l *gen.LSXG) time.Time {
	var s int64
	switch c.Pick("clock.at", 11) {
	case 10:
		// a clock centuries off: an in-window instant plus a multiple of 2^64 ns (where
		// nanosecond counters wrap), 2^63 ns, or 2^32 s
		in := l.Date + c.I64("clock.in", 0, l.Expires-l.Date)
		k := c.PickI64("clock.wraps", 1, -1, 2, -2)
		c.Fault("clock-centuries-off")
		switch c.Pick("clock.wrapUnit", 3) {
		case 0:
			return time.Unix(in+k*18446744073, k*709551616)
		case 1:
			return time.Unix(in+k*9223372036, k*854775808)
		default:
			return time.Unix(in+k*(1<<32), 0)
		}
	case 0:
		s = l.Date - 1
		c.Fault("clock-skew-before-date")
	case 1:
		s = l.Date
		c.Probe("t == date")
	case 2:
		s = l.Date + 1
	case 3:
		s = l.Expires - 1
	case 4:
		s = l.Expires
		c.Probe("t == expires")
	case 5:
		s = l.Expires + 1
		c.Fault("clock-skew-after-expires")
	case 6:
		s = l.Date - c.I64("clock.back", 2, 1000000)
		c.Fault("clock-jump-backward")
	case 7:
		s = l.Expires + c.I64("clock.fwd", 2, 1000000)
		c.Fault("clock-jump-forward")
	default:
		s = l.Date + c.I64("clock.in", 0, l.Expires-l.Date)
	}
	ns := int64(0)
	if c.Chance("clock.ns", 1, 3) {
		ns = c.I64("clock.nanos", 1, 999999999)
	}
	return time.Unix(s, ns)
}

// editSignature applies one edit to a Signature header value.
func editSignature(c *core.Ctx, w *world, l *gen.LSXG, sig string) (string, string) {
	label, ps, err := refsxg.ParseSignature(sig)
	if err != nil {
		return sig, "none"
	}
	idx := func(k string) int {
		for i, p := range ps {
			if p.Key == k {
				return i
			}
		}
		return -1
	}
	op := c.PickStr("sigedit.op", "sig-bit", "cert-sha256-bit", "cert-sha256-foreign", "cert-url-foreign", "validity-url", "date", "expires", "window-shift", "integrity", "drop-param", "second-signature", "label", "sig-trailing", "timestamp-absolute")
	switch op {
	case "sig-bit", "cert-sha256-bit":
		k := map[string]string{"sig-bit": "sig", "cert-sha256-bit": "cert-sha256"}[op]
		i := idx(k)
		b, ok := refsxg.BytesOf(ps[i].Raw)
		if !ok || len(b) == 0 {
			return sig, "none"
		}
		b[c.Int("sigedit.off", 0, len(b)-1)] ^= 1 << uint(c.Int("sigedit.bit", 0, 7))
		ps[i].Raw = refsxg.RawBytes(b)
	case "sig-trailing":
		i := idx("sig")
		b, _ := refsxg.BytesOf(ps[i].Raw)
		b = append(b, c.Bytes("sigedit.trail", 1, 4)...)
		ps[i].Raw = refsxg.RawBytes(b)
	case "cert-sha256-foreign", "cert-url-foreign":
		// substitute another certificate: same host / other key (a2 for a), or any other leaf
		var other *fixtures.Leaf
		for {
			other = fixtures.Leaves[c.Pick("sigedit.leaf", len(fixtures.Leaves))]
			if other != l.Leaf {
				break
			}
		}
		ps[idx("cert-url")].Raw = refsxg.RawString("https://cert.example/" + other.Name + ".cbor")
		if op == "cert-sha256-foreign" {
			ps[idx("cert-sha256")].Raw = refsxg.RawBytes(other.Sha256())
		}
		c.Event("foreign certificate %s", other.Name)
	case "validity-url":
		ps[idx("validity-url")].Raw = refsxg.RawString(l.ValidityURL + c.PickStr("sigedit.vsuffix", "x", "/", "?a"))
	case "date":
		ps[idx("date")].Raw = refsxg.RawInt(l.Date + c.PickI64("sigedit.ddate", -100000, -1, 1, 100))
	case "expires":
		ps[idx("expires")].Raw = refsxg.RawInt(l.Expires + c.PickI64("sigedit.dexp", -1, 1, 100, 1000000, 604800))
	case "timestamp-absolute":
		// absolute values at the edges of the integer range (negative, zero, extremes)
		vals := []int64{-1, 0, -1 << 63, 1<<63 - 1, -604800, 1}
		ps[idx("date")].Raw = refsxg.RawInt(vals[c.Pick("sigedit.absDate", len(vals))])
		if c.Bool("sigedit.absBoth") {
			ps[idx("expires")].Raw = refsxg.RawInt(vals[c.Pick("sigedit.absExpires", len(vals))])
		}
	case "window-shift":
		d := c.PickI64("sigedit.shift", -1000000, 1000000, 3600, 1<<32, -(1 << 32), 2<<32, 1<<31, 1<<33)
		if d >= 1<<31 || d <= -(1<<31) {
			// a shift by a multiple of a counter width, and a client whose clock is there too
			w.clockShift = d
		}
		ps[idx("date")].Raw = refsxg.RawInt(l.Date + d)
		ps[idx("expires")].Raw = refsxg.RawInt(l.Expires + d)
	case "integrity":
		ps[idx("integrity")].Raw = refsxg.RawString(c.PickStr("sigedit.integ", "mi-draft2", "digest/mi-sha256-03", "digest/mi-sha256", ""))
	case "drop-param":
		i := c.Pick("sigedit.drop", len(ps))
		op += ":" + ps[i].Key
		ps = append(ps[:i:i], ps[i+1:]...)
	case "label":
		label = "other"
	case "second-signature":
		// a list of two signatures: an attacker-made one (for another exchange of this run, or garbage) plus the original
		other := w.pubs[c.Pick("sigedit.other", len(w.pubs))]
		extra := other.SigHeader
		if other == l || c.Bool("sigedit.garbageFirst") {
			extra = refsxg.FormatSignature("evil", []refsxg.SigParam{{Key: "sig", Raw: refsxg.RawBytes([]byte{1, 2, 3})}})
		}
		if c.Bool("sigedit.extraFirst") {
			return extra + ", " + sig, op
		}
		return sig + ", " + extra, op
	}
	return refsxg.FormatSignature(label, ps), op
}

// tamper returns the exchange the client ends up holding (nil if it could not
// even be read) and a description of the attack.
func tamper(c *core.Ctx, w *world, l *gen.LSXG) (*signedexchange.Exchange, string) {
	class := c.PickStr("tamper.class", "storage", "storage", "field", "field", "field", "signature", "signature", "certnet", "misdirected", "none")
	readPlan := func(n int) core.ReaderPlan { return c.DrawReaderPlan("cdn", n, false) }
	readIt := func(data []byte) *signedexchange.Exchange {
		e, err, pi, alloc := readFile(c, data, readPlan(len(data)))
		if c.Oracle("C10", "C01") {
			c.CheckTotal("ReadExchange", len(data), pi, alloc)
		}
		if err != nil || pi != nil {
			c.Event("client cannot read the file: %v", err)
			return nil
		}
		return e
	}
	switch class {
	case "none":
		return readIt(l.File), "none"
	case "storage":
		data := l.File
		n := c.Int("storage.n", 1, 2)
		kind := "storage"
		if c.Chance("storage.otherMagic", 1, 10) && len(data) >= 8 {
			// the file signature of another (or of the future, final) version of the format
			data = append([]byte(c.PickStr("storage.magic", "sxg1\x00\x00\x00\x00", "sxg1-b4\x00", "sxg1-b3\x00", "sxg1-b2\x00", "sxg1-b1\x00", "sxg1\x00b3\x00\x00")), data[8:]...)
			c.Fault("storage-other-file-signature")
			return readIt(data), "storage-magic"
		}
		for i := 0; i < n; i++ {
			if c.Chance("storage.meta", 1, 4) {
				f, err := refsxg.Parse(l.File)
				if err == nil && i == 0 {
					var fields []core.Field
					if f.URLLenOff >= 0 {
						fields = append(fields, core.Field{Name: "fallbackUrlLength", Off: f.URLLenOff, Width: 2, Kind: "be", Value: uint64(len(f.URL))})
					}
					fields = append(fields, core.Field{Name: "sigLength", Off: f.SigLenOff, Width: 3, Kind: "be", Value: uint64(len(f.Signature))},
						core.Field{Name: "headerLength", Off: f.HdrLenOff, Width: 3, Kind: "be", Value: uint64(len(f.HeaderBytes))})
					data, _, _ = c.CorruptField("storage.field", data, fields)
					kind = "storage-meta"
					continue
				}
			}
			data = c.CorruptBlob("storage.blob", data, nil)
		}
		return readIt(data), kind
	case "misdirected":
		// the CDN serves another file of this run (lost / misdirected write, stale cache)
		o := w.pubs[c.Pick("misdirected.which", len(w.pubs))]
		c.Fault("storage-misdirected-write")
		if c.Chance("misdirected.splice", 1, 3) {
			cut := c.Int("misdirected.cut", 0, min(len(l.File), len(o.File)))
			data := append(append([]byte(nil), l.File[:cut]...), o.File[cut:]...)
			return readIt(data), "spliced"
		}
		return readIt(o.File), "misdirected"
	case "certnet":
		e := readIt(l.File)
		op := c.PickStr("certnet.op", "unreachable", "foreign-chain", "corrupt-chain", "truncated-chain", "chain-of-same-host-other-key", "garbage-chain", "empty-chain", "forged-by-chain-member", "odd-key-chain", "forged-with-inline-chain", "forged-flapping-server")
		if e != nil && c.Chance("certnet.twoSignatures", 1, 3) {
			// the header lists the signature twice: both name the same cert-url, which is
			// fetched (and fails, or not) once per signature
			h := e.SignatureHeaderValue
			e.SignatureHeaderValue = h + ", " + strings.Replace(h, "label", "label2", 1)
			c.Probe("certificate fault with two signatures naming one cert-url")
		}
		switch op {
		case "odd-key-chain":
			// the certificate server hands out a chain whose first certificate carries a key of
			// a kind the format does not use (P-521, P-224, RSA, Ed25519)
			odd := fixtures.OddCerts[c.Pick("certnet.odd", len(fixtures.OddCerts))]
			w.net.blobs[l.CertURL] = gen.ChainBytesOf([][]byte{odd.DER, l.Leaf.CADER}, []byte("ocsp-odd"))
			c.Fault("certnet-odd-key-chain")
		case "forged-with-inline-chain":
			// another key holder signs altered content for the victim's URL and ships its own
			// chain inside the (unsigned) cert-url parameter as a data: URL; the client's
			// certificate fetcher knows nothing of it
			other := fixtures.Leaves[c.Pick("certnet.forger", len(fixtures.Leaves))]
			if other == l.Leaf {
				other = fixtures.ByName("d-p384")
				if other == l.Leaf {
					other = fixtures.ByName("a-p256")
				}
			}
			f := *l
			f.Leaf, f.SignerObj = other, nil
			f.Payload = append([]byte("forged:"), l.Payload...)
			f.CertURL = "data:application/cert-chain+cbor;base64," + base64.StdEncoding.EncodeToString(gen.ChainBytes(other, []byte("ocsp-"+other.Name)))
			if _, err := f.Sign(); err == nil {
				c.Fault("certnet-inline-chain-in-cert-url")
				return readIt(f.File), "certnet-" + op
			}
		case "forged-flapping-server":
			// another key holder signs altered content for the victim's URL, naming the
			// victim's certificate (cert-sha256) but using its own key; the certificate server
			// answers the first request with the forger's chain and later ones with the
			// victim's (or the other way round): whichever single answer a verification relies
			// on, key and certificate hash cannot both fit
			other := fixtures.Leaves[c.Pick("certnet.forger", len(fixtures.Leaves))]
			if other == l.Leaf {
				other = fixtures.ByName("d-p384")
				if other == l.Leaf {
					other = fixtures.ByName("a-p256")
				}
			}
			f := *l
			hyb := *l.Leaf
			hyb.Key = other.Key
			f.Leaf, f.SignerObj = &hyb, nil
			f.Payload = append([]byte("forged:"), l.Payload...)
			if _, err := f.Sign(); err == nil {
				forger := gen.ChainBytes(other, []byte("ocsp-"+other.Name))
				victim := w.net.blobs[l.CertURL]
				if w.net.seq == nil {
					w.net.seq = map[string][][]byte{}
				}
				if c.Bool("certnet.forgerFirst") {
					w.net.seq[l.CertURL] = [][]byte{forger}
				} else {
					w.net.seq[l.CertURL] = [][]byte{victim, forger, victim}
				}
				return readIt(f.File), "certnet-" + op
			}
		case "forged-by-chain-member":
			// another key holder signs altered content for the victim's URL and gets the
			// certificate server to hand out [victim's certificate, forger's certificate, CA]:
			// only the FIRST certificate of a chain can be the signer
			other := fixtures.Leaves[c.Pick("certnet.forger", len(fixtures.Leaves))]
			if other == l.Leaf {
				other = fixtures.ByName("d-p384")
				if other == l.Leaf {
					other = fixtures.ByName("a-p256")
				}
			}
			f := *l
			f.Leaf, f.SignerObj = other, nil
			f.Payload = append([]byte("forged:"), l.Payload...)
			if _, err := f.Sign(); err == nil {
				w.net.blobs[l.CertURL] = gen.ChainBytesOf([][]byte{l.Leaf.DER, other.DER, l.Leaf.CADER}, []byte("ocsp-"+l.Leaf.Name))
				c.Fault("certnet-forger-inside-the-chain")
				return readIt(f.File), "certnet-" + op
			}
		case "garbage-chain":
			w.net.blobs[l.CertURL] = c.Bytes("certnet.garbage", 0, 40)
			c.Fault("certnet-garbage-chain")
		case "empty-chain":
			// a well-formed chain file without any certificate
			w.net.blobs[l.CertURL] = append([]byte{0x81, 0x67}, []byte("\U0001F4DC\u26D3")...)
			c.Fault("certnet-empty-chain")
		case "unreachable":
			w.net.fail = true
			c.Fault("certnet-unreachable")
		case "foreign-chain", "chain-of-same-host-other-key":
			var other *fixtures.Leaf
			if op == "chain-of-same-host-other-key" {
				other = fixtures.ByName("a2-p256")
			} else {
				other = fixtures.Leaves[c.Pick("certnet.leaf", len(fixtures.Leaves))]
			}
			if other == l.Leaf {
				other = fixtures.ByName("b-p384")
			}
			w.net.blobs[l.CertURL] = w.net.blobs["https://cert.example/"+other.Name+".cbor"]
			c.Fault("certnet-substituted-chain")
		case "corrupt-chain":
			w.net.blobs[l.CertURL] = c.CorruptBlob("certnet.blob", w.net.blobs[l.CertURL], nil)
		case "truncated-chain":
			b := w.net.blobs[l.CertURL]
			w.net.blobs[l.CertURL] = b[:c.Int("certnet.cut", 0, len(b)-1)]
			c.Fault("certnet-truncated-chain")
		}
		return e, "certnet-" + op
	case "signature":
		e := readIt(l.File)
		if e == nil {
			return nil, "none"
		}
		var op string
		if c.Chance("signature.swap", 1, 8) && len(w.pubs) > 1 {
			o := w.pubs[c.Pick("signature.from", len(w.pubs))]
			e.SignatureHeaderValue, op = o.SigHeader, "swap-signature-header"
		} else {
			e.SignatureHeaderValue, op = editSignature(c, w, l, e.SignatureHeaderValue)
		}
		c.Fault("byzantine-signature-edit")
		c.Event("signature edit %s", op)
		if c.Bool("signature.reserialize") {
			// through the file: rebuild with the reference writer
			f, err := refsxg.Parse(l.File)
			if err == nil {
				return readIt(refsxg.Build(l.Version, f.URL, e.SignatureHeaderValue, f.HeaderBytes, f.Payload)), "sig:" + op
			}
		}
		return e, "sig:" + op
	default: // "field": one semantic field edited by the Byzantine re-encoder
		e := readIt(l.File)
		if e == nil {
			return nil, "none"
		}
		if c.Chance("field.onPublisherObject", 1, 4) {
			// the edit is made on the publisher's own in-memory object, after it was
			// signed and written (whatever that object cached must not vouch for the edit)
			if pe, err := l.Sign(); err == nil {
				e = pe
				c.Probe("edit on the publisher's object after Write")
			}
		}
		ops := []string{"url", "status", "header-value", "header-value-pad", "header-add", "header-remove", "header-rename", "payload-bit", "payload-truncate-record", "payload-append", "payload-and-digest", "version", "payload-swap", "payload-recordsize", "payload-rollback"}
		if l.Version != "1b3" {
			ops = append(ops, "method", "req-header-add")
		}
		op := ops[c.Pick("field.op", len(ops))]
		switch op {
		case "url":
			e.RequestURI = l.URL + c.PickStr("field.urlsuffix", "x", "/", "?", "#f")
			if c.Bool("field.urlhost") {
				e.RequestURI = strings.Replace(l.URL, "https://", "https://evil.", 1)
			}
		case "status":
			e.ResponseStatus = c.PickInt("field.status", 200, 201, 404, 500, 203)
			if e.ResponseStatus == l.Status {
				e.ResponseStatus++
			}
		case "header-value":
			ks := core.SortedKeys(map[string][]string(e.ResponseHeaders))
			k := ks[c.Pick("field.hdr", len(ks))]
			e.ResponseHeaders[k] = []string{e.ResponseHeaders[k][0] + "x"}
		case "header-value-pad":
			// optional whitespace added around a value (what a lenient proxy does): other bytes
			ks := core.SortedKeys(map[string][]string(e.ResponseHeaders))
			k := ks[c.Pick("field.hdr", len(ks))]
			vs := append([]string(nil), e.ResponseHeaders[k]...)
			j := c.Pick("field.hdrValue", len(vs))
			pad := c.PickStr("field.pad", " ", "\t", "  ")
			if c.Bool("field.padFront") {
				vs[j] = pad + vs[j]
			} else {
				vs[j] += pad
			}
			e.ResponseHeaders[k] = vs
		case "header-add":
			// (names include the one header the format carries outside the signed map)
			if nh := c.PickDict("field.newhdr", []string{"X-Injected", "Content-Security-Policy", "Link", "Signature", "signature", "SIGNATURE", "Digest2", "Content-Encoding2",
				// (names shaped like the pseudo-headers the format writes itself)
				":x-injected", ":path", ":method", ":status", ":authority", ":url"}, core.HeaderNameRe); c.Bool("field.newhdrDirect") {
				e.ResponseHeaders[nh] = append(e.ResponseHeaders[nh], "evil")
			} else {
				e.ResponseHeaders.Add(nh, "evil")
			}
		case "header-remove":
			ks := core.SortedKeys(map[string][]string(e.ResponseHeaders))
			delete(e.ResponseHeaders, ks[c.Pick("field.hdr", len(ks))])
		case "header-rename":
			v := e.ResponseHeaders["X-Uniq"]
			delete(e.ResponseHeaders, "X-Uniq")
			e.ResponseHeaders["X-Uniq2"] = v
		case "method":
			if e.RequestMethod == "GET" {
				e.RequestMethod = "HEAD"
			} else {
				e.RequestMethod = "GET"
			}
		case "req-header-add":
			if e.RequestHeaders == nil {
				e.RequestHeaders = http.Header{}
			}
			e.RequestHeaders.Add(c.PickDict("field.newreqhdr", []string{"X-Req-Injected", "Signature", "signature", "Accept", ":x-injected", ":path", ":status", ":authority"}, core.HeaderNameRe), "1")
		case "payload-bit":
			if len(e.Payload) == 0 {
				e.Payload = []byte{0}
			} else {
				e.Payload[c.Int("field.off", 0, len(e.Payload)-1)] ^= 1 << uint(c.Int("field.bit", 0, 7))
			}
		case "payload-truncate-record":
			// cut at an exact record boundary: the attack the 0/1 flag exists for
			if len(e.Payload) > 8+l.RS {
				k := c.Int("field.records", 1, (len(e.Payload)-8)/(l.RS+32)+1)
				cut := 8 + k*l.RS + (k-1)*32
				if c.Bool("field.cutAfterProof") {
					cut = 8 + k*(l.RS+32) // right behind a proof instead of right behind a record
				}
				if cut < len(e.Payload) {
					e.Payload = e.Payload[:cut]
					c.Probe("payload truncated exactly at a record boundary")
				} else {
					e.Payload = e.Payload[:len(e.Payload)-1]
				}
			} else if len(e.Payload) > 0 {
				e.Payload = e.Payload[:len(e.Payload)-1]
			} else {
				e.Payload = []byte{1}
			}
		case "payload-append":
			e.Payload = append(e.Payload, c.Bytes("field.extra", 1, 40)...)
		case "payload-recordsize":
			// rewrite the (unsigned) record-size field so that a record and the proof
			// after it are taken for one record, and cut the stream right there
			if len(e.Payload) >= 8 {
				nrs := uint64(l.RS) + uint64(c.PickInt("field.rsdelta", 32, 1, 31, 33, 64))
				if c.Bool("field.rsSmaller") && l.RS > 1 {
					nrs = uint64(c.Int("field.rsSmall", 1, l.RS-1))
				}
				for i := 0; i < 8; i++ {
					e.Payload[7-i] = byte(nrs >> (8 * uint(i)))
				}
				if c.Bool("field.rsCut") && len(e.Payload) > 8+l.RS+32 {
					e.Payload = e.Payload[:8+l.RS+32]
				}
			} else {
				e.Payload = []byte{0, 0, 0, 0, 0, 0, 0, 1, 'x'}
			}
		case "payload-and-digest":
			// replace the body and the (signed) Digest header consistently
			d := refmice.Draft03
			if l.Version == "1b1" {
				d = refmice.Draft02
			}
			evil := append([]byte("evil:"), l.Payload...)
			dg, stream := refmice.Encode(d, evil, l.RS)
			e.Payload = stream
			e.ResponseHeaders.Set(d.HeaderName(), dg)
		case "payload-rollback":
			// the (unsigned) integrity parameter rewritten to name another header of the signed
			// response that holds a well-formed digest - of the previous version - and the
			// payload replaced by that version
			if l.OldPayload != nil {
				d := refmice.Draft03
				if l.Version == "1b1" {
					d = refmice.Draft02
				}
				_, stream := refmice.Encode(d, l.OldPayload, 16)
				e.Payload = stream
				if label, ps, perr := refsxg.ParseSignature(e.SignatureHeaderValue); perr == nil {
					for i := range ps {
						if ps[i].Key == "integrity" {
							ps[i].Raw = refsxg.RawString(c.PickStr("field.rollbackIntegrity", "x-previous-digest/mi-sha256-03", "X-Previous-Digest/mi-sha256-03", "x-previous-digest"))
						}
					}
					e.SignatureHeaderValue = refsxg.FormatSignature(label, ps)
				}
				c.Probe("rollback through a redirected integrity parameter")
			} else {
				e.Payload = append(e.Payload, 'x')
			}
		case "payload-swap":
			o := w.pubs[c.Pick("field.from", len(w.pubs))]
			if o == l {
				e.Payload = append([]byte{0, 0, 0, 0, 0, 0, 0, 1}, l.Payload...)
			} else {
				e.Payload = append([]byte(nil), o.EncPayload...)
			}
		case "version":
			vs := []version.Version{version.Version1b1, version.Version1b2, version.Version1b3}
			nv := vs[c.Pick("field.version", 3)]
			if nv == e.Version {
				nv = vs[(c.Pick("field.version2", 2)+1+indexOf(vs, nv))%3]
			}
			e.Version = nv
			if nv != version.Version1b3 && e.RequestMethod == "" {
				e.RequestMethod = "GET"
			}
		}
		c.Fault("byzantine-field-edit")
		c.Event("field edit %s", op)
		if c.Bool("field.reserialize") && op != "version" {
			var buf bytes.Buffer
			if err := e.Write(&buf); err == nil {
				return readIt(buf.Bytes()), "field:" + op
			}
		}
		return e, "field:" + op
	}
}

func indexOf(vs []version.Version, v version.Version) int {
	for i, x := range vs {
		if x == v {
			return i
		}
	}
	return 0
}

// judgeAccept is the C01 oracle for one verification that returned ok.
func judgeAccept(c *core.Ctx, w *world, e *signedexchange.Exchange, payload []byte, t time.Time, what string) {
	var match *gen.LSXG
	for _, o := range w.pubs {
		if contentEquals(e, payload, o) {
			match = o
			break
		}
	}
	if match == nil {
		resp, _ := gen.CanonHeader(e.ResponseHeaders)
		c.Violation("accepted-altered-content", "Exchange.Verify", "verification succeeded after %s on content no publisher signed: version=%s url=%q method=%q status=%d headers=%v payload=%s", what, e.Version, e.RequestURI, e.RequestMethod, e.ResponseStatus, resp, core.Hex(payload))
	}
	if !inWindow(t, match) {
		c.Violation("accepted-outside-window", "Exchange.Verify", "verification succeeded at t=%d.%09d outside the signed window [%d,%d] (%s)", t.Unix(), t.Nanosecond(), match.Date, match.Expires, what)
	}
	// spec step 6: some listed signature's cert-sha256 parameter is the hash of the fetched leaf
	servedHash := sha256.Sum256(leafOf(w.net.served))
	// (looked up textually: every `cert-sha256=*base64*` occurrence in the header is
	// decoded the way the header grammar prescribes; no assumption about the rest
	// of the header's shape, which may be damaged yet still valid)
	bound := false
	for _, m := range certShaRe.FindAllStringSubmatch(e.SignatureHeaderValue, -1) {
		// (the structured-header grammar lets a parser accept binary content whose base64
		// padding is missing, so padding is not demanded here either)
		if b, err := base64.RawStdEncoding.DecodeString(strings.TrimRight(m[1], "=")); err == nil && bytes.Equal(b, servedHash[:]) {
			bound = true
		}
	}
	if !bound {
		c.Violation("cert-sha256-not-bound", "Exchange.Verify", "verification succeeded although no signature's cert-sha256 parameter equals SHA-256 of the fetched leaf certificate (%s)", what)
	}
	if leaf := leafOf(w.net.served); !bytes.Equal(leaf, match.Leaf.DER) {
		h := sha256.Sum256(leaf)
		c.Violation("accepted-foreign-certificate", "Exchange.Verify", "verification succeeded with leaf certificate sha256=%x, the signer's is %x (%s)", h[:6], match.Leaf.Sha256()[:6], what)
	}
}

func TestTamper(t *testing.T) {
	rapid.Check(t, func(t *rapid.T) {
		core.Run(t, "sxg/tamper", func(c *core.Ctx) {
			if c.Chance("liveWindow", 1, 60) {
				// An exchange whose window contains the REAL present, verified at the zero
				// time.Time (year 1): rejected, unless something substitutes the wall clock for
				// the caller's clock reading. The library has no clock seam, so this is the second
				// (and last) place where a run looks at real time; the date is kept out of the
				// event log, and for code that never asks the clock the verdict does not depend on it.
				l := gen.DrawSXG(c, "live", 1)
				now := time.Now().Unix()
				l.Date, l.Expires = now-1800, now+1800
				if _, err := l.Sign(); err == nil {
					net := newCertNet(c)
					if e, rerr, _, _ := readFile(c, l.File, core.ReaderPlan{ErrAt: -1}); rerr == nil && e != nil {
						for _, z := range []time.Time{{}, time.Time{}.In(time.FixedZone("", 3600)), time.Unix(0, 0)} {
							if v := verify(c, e, z, net); v.ok && c.Oracle("C01") {
								c.Violation("accepted-outside-window", "Exchange.Verify/zero-time", "verification at the zero time (or the epoch) succeeded for an exchange whose window is around the real present")
							}
						}
					}
				}
				c.Fault("clock-reading-is-the-zero-time")
				c.Outcome("nt:zero-time")
				return
			}
			w := publish(c, c.Int("npub", 1, 3))
			l := w.pubs[c.Pick("victim", len(w.pubs))]
			if c.Bool("honestFirst") {
				// history: the client has already verified the untouched exchanges of this run
				// (whatever it remembered must not help the attacked one)
				for _, o := range w.pubs {
					if he, err := signedexchange.ReadExchange(bytes.NewReader(o.File)); err == nil {
						ht := time.Unix(o.Date+c.I64("honestFirst.t", 0, o.Expires-o.Date), 0)
						if v := verify(c, he, ht, w.net); c.Oracle("C01") && (v.pi != nil || !v.ok) {
							c.Violation("honest-rejected", "Exchange.Verify", "an untouched exchange was rejected inside its window")
						}
					}
				}
				c.Probe("attack after honest verifications in the same process")
			}
			e, what := tamper(c, w, l)
			c.Sig("%s/%s", l.Version, what)
			if e == nil {
				c.Outcome("unreadable")
				return
			}
			// the same object verified at several client clock readings (jumps in between)
			nver := c.Int("nverify", 1, 3)
			var first *verdict
			var firstT time.Time
			for i := 0; i < nver; i++ {
				tm := clientTime(c, l)
				if w.clockShift != 0 {
					tm = time.Unix(tm.Unix()+w.clockShift, int64(tm.Nanosecond()))
					c.Fault("clock-where-the-window-was-moved-to")
				}
				v := verify(c, e, tm, w.net)
				if c.Oracle("C10", "C01") {
					c.CheckTotal("Exchange.Verify", len(l.File), v.pi, v.alloc)
				}
				c.Event("verify at %d.%09d -> ok=%v", tm.Unix(), tm.Nanosecond(), v.ok)
				if v.ok && c.Oracle("C01") {
					judgeAccept(c, w, e, v.payload, tm, what)
				}
				if i == 0 {
					first, firstT = &v, tm
				}
				c.SimTime(1)
			}
			// history: the verdict is a function of (object, chain, t) only
			if c.Oracle("C01") && nver > 1 {
				v := verify(c, e, firstT, w.net)
				if v.ok != first.ok || !bytes.Equal(v.payload, first.payload) {
					c.Violation("verdict-depends-on-history", "Exchange.Verify", "same exchange, same time: first ok=%v, later ok=%v", first.ok, v.ok)
				}
			}
			if first.ok {
				c.Outcome("accepted")
			} else {
				c.Outcome("rejected")
			}
		})
	})
}

// TestExhaustiveTamper: every single-bit flip, every truncation length and
// every single-byte deletion of one small serialized exchange.
func TestExhaustiveTamper(t *testing.T) {
	rapid.Check(t, func(t *rapid.T) {
		core.Run(t, "sxg/exhaustive-tamper", func(c *core.Ctx) {
			w := publish(c, 1)
			l := w.pubs[0]
			if len(l.File) > 1400 {
				c.Outcome("skipped")
				return
			}
			tm := time.Unix(l.Date+c.I64("t", 0, l.Expires-l.Date), 0)
			try := func(data []byte, what string) {
				e, err := signedexchange.ReadExchange(bytes.NewReader(data))
				if err != nil {
					return
				}
				v := verify(c, e, tm, w.net)
				if c.Oracle("C10", "C01") {
					c.CheckTotal("Exchange.Verify", len(data), v.pi, v.alloc)
				}
				if v.ok && c.Oracle("C01") {
					judgeAccept(c, w, e, v.payload, tm, what)
				}
			}
			for i := 0; i < len(l.File)*8; i++ {
				d := append([]byte(nil), l.File...)
				d[i/8] ^= 1 << uint(i%8)
				try(d, fmt.Sprintf("bit flip %d", i))
			}
			for cut := 0; cut < len(l.File); cut++ {
				try(l.File[:cut], fmt.Sprintf("truncation at %d", cut))
				d := append(append([]byte(nil), l.File[:cut]...), l.File[cut+1:]...)
				try(d, fmt.Sprintf("deletion of byte %d", cut))
			}
			c.Fault("storage-bitflip")
			c.Fault("storage-truncate")
			c.Fault("storage-delete-byte")
			core.ExhaustiveDone("C01: every single-bit flip, truncation length and single-byte deletion of one serialized exchange", 1)
			c.Outcome("done")
			c.Sig("%s/len%d", l.Version, len(l.File))
		})
	})
}

// TestSigHeaderFaults: the Signature header value (a structured header, parsed
// by the verifier before anything is trusted) is damaged on its own: bit flips,
// truncation, duplicated and swapped blocks, inserted and deleted bytes, at
// drawn positions of the header string. The parser must be total (C10) and an
// acceptance must still be an acceptance of signed content (C01).
func TestSigHeaderFaults(t *testing.T) {
	rapid.Check(t, func(t *rapid.T) {
		core.Run(t, "sxg/sigheader-faults", func(c *core.Ctx) {
			w := publish(c, 1)
			l := w.pubs[0]
			e, err := signedexchange.ReadExchange(bytes.NewReader(l.File))
			if err != nil {
				return
			}
			h := []byte(e.SignatureHeaderValue)
			n := c.Int("nfaults", 1, 3)
			for i := 0; i < n; i++ {
				if c.Chance("structural", 1, 3) {
					// structure-aware: characters that matter to the grammar
					at := c.Int("at", 0, len(h))
					ins := c.PickStr("ins", ";", ",", "=", "\"", "*", " ", "\\", ", label", ";a", "=1", "=*", "\"\"", ";sig=*AA==*", "\t", "9999999999999999999999")
					h = append(h[:at:at], append([]byte(ins), h[at:]...)...)
					c.Fault("sigheader-structural-insert")
				} else {
					h = c.CorruptBlob("blob", h, nil)
				}
			}
			e.SignatureHeaderValue = string(h)
			c.Event("Signature header as received: %q", h)
			tm := clientTime(c, l)
			v := verify(c, e, tm, w.net)
			if c.Oracle("C10", "C01") {
				c.CheckTotal("Exchange.Verify", len(l.File), v.pi, v.alloc)
			}
			if v.ok && c.Oracle("C01") {
				judgeAccept(c, w, e, v.payload, tm, "damaged Signature header")
			}
			if v.ok {
				c.Outcome("accepted")
			} else {
				c.Outcome("rejected")
			}
			c.Sig("%s/n%d", l.Version, n)
		})
	})
}

// TestConcurrentClients: two or three client tasks, each reading its own
// (possibly attacked) file from a chunked CDN and verifying it, run under the
// cooperative scheduler: a task is parked at every Read and at every
// certificate fetch. Each acceptance is judged as in sxg/tamper.
func TestConcurrentClients(t *testing.T) {
	rapid.Check(t, func(t *rapid.T) {
		core.Run(t, "sxg/concurrent-clients", func(c *core.Ctx) {
			n := c.Int("nclients", 2, 3)
			w := publish(c, n)
			type client struct {
				l      *gen.LSXG
				data   []byte
				e      *signedexchange.Exchange
				ok     bool
				pl     []byte
				tm     time.Time
				served []byte
				what   string
			}
			cl := make([]*client, n)
			var tasks []func(yield func())
			for i := 0; i < n; i++ {
				x := &client{l: w.pubs[i], data: w.pubs[i].File, what: "untouched"}
				if c.Chance("attacked", 1, 2) {
					x.data = c.CorruptBlob("blob", x.data, nil)
					x.what = "storage fault"
				}
				x.tm = clientTime(c, x.l)
				cl[i] = x
				sr := c.NewReader(fmt.Sprintf("cdn%d", i), x.data, core.ReaderPlan{ErrAt: -1, Mode: 1, Chunk: c.PickInt("chunk", 3, 16, 100, 4096)})
				tasks = append(tasks, func(yield func()) {
					sr.OnCall = yield
					e, err := signedexchange.ReadExchange(sr)
					if err != nil {
						return
					}
					x.e = e
					fetch := func(u string) ([]byte, error) {
						yield()
						b, ok := w.net.blobs[u]
						if !ok {
							return nil, errors.New("sim: 404")
						}
						x.served = b
						return b, nil
					}
					x.pl, x.ok = e.Verify(x.tm, fetch, quiet)
				})
			}
			sched, panics := c.RunTasks("sched", tasks)
			c.Event("schedule %s", sched)
			for i, p := range panics {
				if p != nil && c.Oracle("C10", "C01") {
					c.Violation("panic", "signedexchange(concurrent)", "client task %d panicked under schedule %s: %v", i, sched, p)
				}
			}
			if c.Oracle("C01") {
				for i, x := range cl {
					if x.ok {
						w.net.served = x.served
						judgeAccept(c, w, x.e, x.pl, x.tm, fmt.Sprintf("%s, client %d of %d, schedule %s", x.what, i, n, sched))
					} else if x.what == "untouched" && inWindow(x.tm, x.l) && x.e != nil {
						c.Violation("honest-rejected", "Exchange.Verify", "client %d: an untouched exchange was rejected inside its window under schedule %s", i, sched)
					}
				}
			}
			c.Outcome("nt:done")
			c.Sig("%s", sched)
		})
	})
}

// yieldingAlg is a signing party that takes its time (an HSM, a remote signer):
// the publisher task is parked before the message is actually signed.
type yieldingAlg struct {
	inner interface {
		Sign([]byte) ([]byte, error)
	}
	yield func()
}

func (a yieldingAlg) Sign(m []byte) ([]byte, error) {
	a.yield()
	return a.inner.Sign(m)
}

// TestConcurrentPublishers: two or three publisher tasks sign and write their
// own exchanges under the cooperative scheduler; a task is parked inside its
// (slow) signing algorithm and at every Write of its destination. Every
// exchange must afterwards read back as the model and verify.
func TestConcurrentPublishers(t *testing.T) {
	rapid.Check(t, func(t *rapid.T) {
		core.Run(t, "sxg/concurrent-publishers", func(c *core.Ctx) {
			n := c.Int("npublishers", 2, 3)
			ls := make([]*gen.LSXG, n)
			files := make([][]byte, n)
			errs := make([]error, n)
			var tasks []func(yield func())
			for i := 0; i < n; i++ {
				i := i
				l := gen.DrawSXG(c, fmt.Sprintf("sxg%d", i), i+1)
				ls[i] = l
				w := c.NewWriter(fmt.Sprintf("disk%d", i), core.WriterPlan{FailAt: -1})
				tasks = append(tasks, func(yield func()) {
					core.Unwrap(w).OnCall = yield
					sg := l.Signer()
					sg.Algorithm = yieldingAlg{inner: sg.Algorithm, yield: yield}
					l.SignerObj = sg
					e, err := l.Sign()
					if err != nil {
						errs[i] = err
						return
					}
					errs[i] = e.Write(w)
					files[i] = core.Unwrap(w).Accepted
				})
			}
			sched, panics := c.RunTasks("sched", tasks)
			c.Event("schedule %s", sched)
			net := newCertNet(c)
			for i, l := range ls {
				if panics[i] != nil {
					if c.Oracle("C02", "C10") {
						c.Violation("panic", "publisher(concurrent)", "publisher task %d panicked under schedule %s: %v", i, sched, panics[i])
					}
					continue
				}
				if !c.Oracle("C02") {
					continue
				}
				if errs[i] != nil {
					c.Violation("sign-error", "publisher", "publisher %d failed under schedule %s: %v", i, sched, errs[i])
				}
				rd, rerr := signedexchange.ReadExchange(bytes.NewReader(files[i]))
				if rerr != nil {
					c.Violation("read-error", "ReadExchange", "publisher %d's file rejected (schedule %s): %v", i, sched, rerr)
				}
				checkReadBack(c, rd, l, "ReadExchange/concurrent-publishers")
				tm := time.Unix(l.Date+c.I64("t", 0, l.Expires-l.Date), 0)
				v := verify(c, rd, tm, net)
				if v.pi != nil || !v.ok || !bytes.Equal(v.payload, l.Payload) {
					c.Violation("verify-failed", "Exchange.Verify", "publisher %d of %d: the exchange signed under schedule %s does not verify inside its window", i, n, sched)
				}
			}
			c.Outcome("nt:done")
			c.Sig("%s", sched)
		})
	})
}

// TestScale: sizes at which implementations keep thresholds (caps, chunk sizes,
// pre-allocation limits): payloads of 1 MiB, 16 MiB and a little more, through
// the whole publisher -> file -> client path, then with one byte of the LAST
// record flipped in the file (which must be noticed: nothing behind a cap may
// go unread). Few runs, each large.
func TestScale(t *testing.T) {
	rapid.Check(t, func(t *rapid.T) {
		core.Run(t, "sxg/scale", func(c *core.Ctx) {
			l := gen.DrawSXG(c, "sxg", 1)
			n := c.PickInt("scale.len", 1<<20, 1<<20+1, 1<<24-1, 1<<24, 1<<24+1, 1<<24+4096)
			l.Payload = make([]byte, n)
			core.FillPattern(l.Payload, c.U64("scale.pat", 0, ^uint64(0)))
			l.RS = c.PickInt("scale.rs", 16384, 4096, 16384)
			c.Event("%s", l.Describe())
			if _, err := l.Sign(); err != nil {
				c.Violation("sign-error", "publisher", "library refused a valid exchange: %v", err)
			}
			net := newCertNet(c)
			tm := time.Unix(l.Date, 0)
			rd, rerr, pi, _ := readFile(c, l.File, core.ReaderPlan{ErrAt: -1})
			if pi != nil || rerr != nil {
				c.Violation("read-error", "ReadExchange/scale", "reader rejected the writer's output: %v", rerr)
			}
			v := verify(c, rd, tm, net)
			if c.Oracle("C02", "C01") {
				if v.pi != nil || !v.ok {
					c.Violation("verify-failed", "Exchange.Verify/scale", "honest %d-byte payload rejected", n)
				}
				if !bytes.Equal(v.payload, l.Payload) {
					c.Violation("verify-payload", "Exchange.Verify/scale", "returned payload differs from the original (%d vs %d bytes)", len(v.payload), len(l.Payload))
				}
			}
			// storage fault in the very last record
			bad := append([]byte(nil), l.File...)
			bad[len(bad)-1-c.Int("scale.flipBack", 0, 100)] ^= 0x40
			c.Fault("storage-bitflip-in-last-record")
			rd2, rerr2, _, _ := readFile(c, bad, core.ReaderPlan{ErrAt: -1})
			if rerr2 == nil && rd2 != nil {
				v2 := verify(c, rd2, tm, net)
				if v2.ok && c.Oracle("C01") {
					w := &world{c: c, net: net, pubs: []*gen.LSXG{l}}
					judgeAccept(c, w, rd2, v2.payload, tm, "bit flip in the last record of a large payload")
				}
			}
			c.SimTime(1)
			c.Outcome("nt:ok")
			c.Sig("scale/%s/%d", l.Version, n)
		})
	})
}
