package sxg

import (
	"bytes"
	"fmt"
	"math/big"
	"time"
	"net/url"
	"strings"
	"testing"

	"github.com/WICG/webpackage/go/signedexchange"
	"pgregory.net/rapid"
	"verifsim/core"
	"verifsim/gen"
	"verifsim/ref/refsxg"
)

var bannedResp = []string{"Connection", "Keep-Alive", "Proxy-Connection", "Trailer", "Transfer-Encoding", "Upgrade", "Authentication-Control", "Authentication-Info", "Clear-Site-Data", "Optional-WWW-Authenticate", "Proxy-Authenticate", "Proxy-Authentication-Info", "Public-Key-Pins", "Sec-WebSocket-Accept", "Set-Cookie", "Set-Cookie2", "SetProfile", "Strict-Transport-Security", "WWW-Authenticate"}
var bannedReq = []string{"Authorization", "Cookie", "Cookie2", "Proxy-Authorization", "Sec-WebSocket-Key"}
var lookalikeResp = []string{"Set-Cookie3", "X-Set-Cookie", "Connection-X", "Keep", "Upgrade-Insecure-Requests", "Public-Key-Pins-Report-Only", "Trailers", "Strict-Transport"}
var lookalikeReq = []string{"Cookie3", "X-Cookie", "Authorization-X", "Proxy-Auth", "Sec-WebSocket-Version"}

// status codes that any HTTP cache understands vs. codes no registry defines;
// borderline codes (306, 418, 425, ...) are a don't-care zone and not generated
var knownStatus = []int{200, 203, 204, 206, 300, 301, 302, 304, 307, 308, 400, 403, 404, 405, 410, 414, 500, 501, 503}
var unknownStatus = []int{199, 209, 299, 309, 399, 419, 430, 499, 512, 599}

func randCase(c *core.Ctx, label, s string) string {
	b := []byte(s)
	mask := c.U64(label, 0, ^uint64(0))
	for j := range b {
		if mask>>(uint(j)%64)&1 == 1 {
			if b[j] >= 'a' && b[j] <= 'z' {
				b[j] -= 32
			} else if b[j] >= 'A' && b[j] <= 'Z' {
				b[j] += 32
			}
		}
	}
	return string(b)
}

// header fields whose presence or value is itself an input of the policy (or of
// payload integrity), which dictionary-drawn extra headers must not disturb
var semanticHeaders = []string{"Content-Type", "Cache-Control", "Expires", "Digest", "MI-Draft2", "Content-Encoding", "Signature", "Variants", "Variant-Key", "X-Uniq"}

func in(list []string, s string) bool {
	for _, x := range list {
		if strings.EqualFold(x, s) {
			return true
		}
	}
	return false
}

func canonNames(l *gen.LSXG) map[string]bool {
	m := map[string]bool{}
	for _, h := range l.RespHeaders {
		m[strings.ToLower(h.Name)] = true
	}
	for _, n := range l.EmptyValued {
		m[strings.ToLower(n)] = true
	}
	return m
}

func TestPolicy(t *testing.T) {
	rapid.Check(t, func(t *rapid.T) {
		core.Run(t, "sxg/policy", func(c *core.Ctx) {
			defer c.LocalZone("process")()
			l := gen.DrawSXG(c, "sxg", 1)
			u, _ := url.Parse(l.URL)
			p := refsxg.Policy{Version: l.Version, URLScheme: u.Scheme, URLHost: u.Host, ValidityScheme: u.Scheme, ValidityHost: u.Host,
				Method: l.Method, Status: l.Status, HasContentType: true}
			p.Integrity = "digest/mi-sha256-03"
			if l.Version == "1b1" {
				p.Integrity = "mi-draft2"
			}
			statusUnderstood := true
			var kinds []string
			integrityEdit := ""
			overflowEdit, overflowK := "", 0
			twoSignatures := false
			manyHeaders := false
			decoy := ""
			methodAbsent := false
			var qualifiedNoCache []string
			nvar := c.Int("nvariations", 0, 3)
			for i := 0; i < nvar; i++ {
				kind := c.PickStr("variation", "validity", "lifetime", "integrity", "foreign-integrity", "number-overflow", "two-signatures", "decoy-signature", "many-headers", "method", "method-absent", "req-header", "resp-header", "content-type", "cache-control", "expires-header", "status")
				kinds = append(kinds, kind)
				switch kind {
				case "validity":
					host, scheme := u.Host, "https"
					if c.Chance("validity.relative", 1, 6) {
						// a validity-url that is no absolute URL at all: it has no origin, so it cannot be
						// same-origin with anything
						rel := c.PickStr("validity.relativeForm", "/resource.validity", "resource.validity", "?v=1", "//"+u.Host+"/x.validity", "")
						l.ValidityURL = rel
						p.ValidityScheme, p.ValidityHost = "", "<relative:"+rel+">"
						break
					}
					switch c.Pick("validity.how", 5) {
					case 0:
						scheme = "http"
					case 1:
						host = "evil." + u.Host
					case 2:
						if strings.Contains(host, ":") {
							host = u.Hostname() + ":9443"
						} else {
							host += ":8444"
						}
					case 3:
						host = u.Hostname() + ".evil"
					default: // same origin, other path: allowed
					}
					l.ValidityURL = fmt.Sprintf("%s://%s/other/validity?x=%d", scheme, host, i)
					p.ValidityScheme, p.ValidityHost = scheme, host
				case "lifetime":
					if c.Chance("lifetime.acrossDST", 1, 3) {
						// the 7 days span a daylight-saving transition of a zone the process may run in
						l.Date = core.DSTTransitions[c.Pick("lifetime.transition", len(core.DSTTransitions))] - c.I64("lifetime.before", 0, 604800)
					}
					l.Expires = l.Date + c.PickI64("lifetime", 604799, 604800, 604801, 604800*2, 0, 9300000000, 1<<40, 1<<62, 1<<32, 1<<31, 601200, 608400)
					if l.Expires-l.Date == 604800 {
						c.Probe("lifetime == 604800")
					}
					if l.Expires-l.Date == 604801 {
						c.Probe("lifetime == 604801")
					}
				case "integrity":
					if !l.ForeignMI {
						integrityEdit = c.PickStr("integrity", "mi-draft2", "digest/mi-sha256-03", "digest/mi-sha256", "mi-sha256-03")
						p.Integrity = integrityEdit
					}
				case "foreign-integrity":
					// the other version's scheme used consistently: payload encoding, digest
					// header, Content-Encoding and the (unsigned) integrity parameter all agree
					// with each other - and none with the exchange's version
					if integrityEdit == "" {
						l.ForeignMI = true
						integrityEdit = "mi-draft2"
						if l.Version == "1b1" {
							integrityEdit = "digest/mi-sha256-03"
						}
						p.Integrity = integrityEdit
						c.Probe("other version's integrity scheme used consistently")
					}
				case "decoy-signature":
					// besides the genuine signature the header lists an entry nobody signed, whose
					// (unsigned) date / expires / validity-url parameters are beyond reproach: each
					// entry stands or falls by itself, so the verdict is the genuine one's
					decoy = c.PickStr("decoy.position", "first", "last")
				case "method-absent":
					// (1b1 / 1b2) the file's request map has no :method entry at all - not GET, not HEAD
					if l.Version != "1b3" {
						methodAbsent = true
						p.Method = ""
					}
				case "many-headers":
					// a response with 20-40 distinct (harmless) header fields
					if !manyHeaders {
						manyHeaders = true
						for j, n := 0, c.Int("manyHeaders.n", 17, 40); j < n; j++ {
							l.RespHeaders = append(l.RespHeaders, gen.HV{Name: fmt.Sprintf("X-Pad-%d", j), Value: "p"})
						}
						c.Probe("response with many header fields")
					}
				case "two-signatures":
					// the Signature header lists the same valid signature twice: each is subject
					// to every condition, the verdict does not change
					twoSignatures = true
				case "number-overflow":
					// the (unsigned) Signature header states date or expires plus k*2^64: not a
					// representable structured-header integer, so the header is invalid
					overflowEdit = c.PickStr("overflow.param", "expires", "date")
					overflowK = c.Int("overflow.k", 1, 4)
				case "method":
					if l.Version != "1b3" {
						l.Method = c.PickStr("method", "GET", "HEAD", "POST", "PUT", "DELETE", "OPTIONS", "get")
						p.Method = l.Method
					}
				case "req-header":
					if l.Version != "1b3" {
						var name string
						switch c.Pick("req.class", 4) {
						case 3:
							name = c.PickDict("req.dict", []string{"X-Plain-Req"}, core.HeaderNameRe, semanticHeaders...)
						case 0:
							name = bannedReq[c.Pick("req.name", len(bannedReq))]
						case 1:
							name = lookalikeReq[c.Pick("req.look", len(lookalikeReq))]
						default: // banned as a RESPONSE field, harmless in a request
							name = bannedResp[c.Pick("req.cross", len(bannedResp))]
						}
						if c.Bool("req.recase") {
							name = randCase(c, "req.case", name)
						}
						l.ReqHeaders = append(l.ReqHeaders, gen.HV{Name: name, Value: "v"})
					}
				case "resp-header":
					var name string
					switch c.Pick("resp.class", 4) {
					case 0:
						name = bannedResp[c.Pick("resp.name", len(bannedResp))]
					case 3:
						// any header-name-shaped string literal of the tree under test (minus the fields
						// that carry policy input themselves); the reference's lists decide the verdict
						name = c.PickDict("resp.dict", []string{"X-Plain"}, core.HeaderNameRe, semanticHeaders...)
					case 1:
						name = lookalikeResp[c.Pick("resp.look", len(lookalikeResp))]
						if c.Bool("resp.nearMiss") {
							// derived from a banned name: same first segment, one character more or less
							b := bannedResp[c.Pick("resp.nearMissOf", len(bannedResp))]
							switch c.Pick("resp.nearMissHow", 5) {
							case 0:
								name = strings.SplitN(b, "-", 2)[0] + "-Status"
							case 1:
								name = b + "s"
							case 2:
								name = b[:len(b)-1]
							case 3:
								name = "X-" + b
							default:
								name = b + "-Report-Only"
							}
							if in(bannedResp, name) {
								name = "X-Plain"
							}
						}
					default: // banned as a REQUEST field, harmless in a response
						name = bannedReq[c.Pick("resp.cross", len(bannedReq))]
					}
					if c.Bool("resp.recase") {
						name = randCase(c, "resp.case", name)
					}
					if _, dup := canonNames(l)[strings.ToLower(name)]; c.Chance("resp.noValue", 1, 5) && !dup {
						// present in the caller's map without any value
						l.EmptyValued = append(l.EmptyValued, name)
						p.RespHeaderNames = append(p.RespHeaderNames, name)
						c.Probe("header present with an empty value list")
					} else {
						l.RespHeaders = append(l.RespHeaders, gen.HV{Name: name, Value: "v"})
					}
				case "content-type":
					var hs []gen.HV
					for _, h := range l.RespHeaders {
						if strings.ToLower(h.Name) != "content-type" {
							hs = append(hs, h)
						}
					}
					l.RespHeaders = hs
					p.HasContentType = false
				case "cache-control":
					dirs := []string{"no-store", "private", "max-age=60", "s-maxage=10", "public", "no-cache", "must-revalidate", "No-Store", "PRIVATE", "Max-Age=5", "no-storex", "xprivate", "immutable",
						// extension directives with quoted-string arguments (no comma inside: the repository's
						// parser documents that as unsupported), including quoted pairs
						`ext="a\"b"`, `ext="q"`, `community="U\\C\"I"`, `no-cache="set-cookie"`, `x="no-store"`, `private="x-hdr"`, `max-age="60"`,
						// a quoted-string whose last character is an escaped backslash: the quote after it closes the string
						`ext="C:\\"`, `ext="\\"`, `ext="a\\\\"`,
						// bytes whose case mapping changes their length (invalid UTF-8, U+023A, U+0130)
						"\xff", "\u023a=1", "\u0130", "x=\xff\xfe"}
					n := c.Int("cc.n", 1, 3)
					var parts []string
					for j := 0; j < n; j++ {
						parts = append(parts, c.PickDict("cc.dir", dirs, `^[a-z][a-z0-9-]{1,24}$`))
					}
					if c.Chance("cc.qualifiedNoCache", 1, 4) {
						// no-cache="field": names a field of THIS response; whatever the verifier makes of it
						// must not outlive the verification (the named field is harmless in other responses)
						var nm string
						switch c.Pick("cc.qnc.class", 3) {
						case 0:
							nm = "X-Plain"
						case 1:
							nm = lookalikeResp[c.Pick("cc.qnc.look", len(lookalikeResp))]
						default:
							nm = bannedReq[c.Pick("cc.qnc.cross", len(bannedReq))]
						}
						if c.Bool("cc.qnc.lower") {
							nm = strings.ToLower(nm)
						}
						qualifiedNoCache = append(qualifiedNoCache, nm)
						parts = append(parts, `no-cache="`+nm+`"`)
						c.Probe("Cache-Control: no-cache naming a harmless field")
					}
					if c.Chance("cc.unbalancedQuote", 1, 8) {
						// a quoted-string that never ends - as the LAST directive, where the reference and
						// a comma-splitting parser read the directives before it alike
						parts = append(parts, c.PickStr("cc.unbalanced", `no-cache="set-cookie`, `ext="x\"`, `ext="`, `"`))
					}
					p.CacheControl = strings.Join(parts, c.PickStr("cc.sep", ",", ", ", " , ", ",\t", "\t,", " \t, \t"))
					var hs []gen.HV
					for _, h := range l.RespHeaders {
						if strings.ToLower(h.Name) != "cache-control" {
							hs = append(hs, h)
						}
					}
					l.RespHeaders = append(hs, gen.HV{Name: c.PickStr("cc.name", "Cache-Control", "cache-control"), Value: p.CacheControl})
				case "expires-header":
					if !p.HasExpires {
						// (storability depends on the field being present, RFC 7234 section 3; a value
						// that is no HTTP-date means "already expired", section 5.3, not "absent")
						l.RespHeaders = append(l.RespHeaders, gen.HV{Name: "Expires", Value: c.PickStr("expires.value", "Thu, 01 Dec 2094 16:00:00 GMT", "Thu, 01 Dec 2094 16:00:00 GMT", "0", "-1", "2094-12-01T16:00:00Z", "Thu, 01 Dec 1994 16:00:00 +0000", "never")})
						p.HasExpires = true
					}
				case "status":
					if c.Bool("status.known") {
						l.Status = knownStatus[c.Pick("status.k", len(knownStatus))]
						statusUnderstood = true
					} else {
						l.Status = unknownStatus[c.Pick("status.u", len(unknownStatus))]
						statusUnderstood = false
					}
					p.Status = l.Status
				}
			}
			if methodAbsent {
				p.Method = "" // (whatever a later "method" variation chose for the publisher's object)
			}
			// A response that carries a field its own no-cache directive names is outside the
			// property's list of conditions (RFC 7234 5.2.2.2, a documented TODO of the
			// repository): such a field is dropped from this response, so the verdict is decided.
			if len(qualifiedNoCache) > 0 {
				named := func(n string) bool {
					for _, q := range qualifiedNoCache {
						if strings.EqualFold(q, n) {
							return true
						}
					}
					return false
				}
				var hs []gen.HV
				for _, h := range l.RespHeaders {
					if !named(h.Name) {
						hs = append(hs, h)
					}
				}
				l.RespHeaders = hs
				var ev []string
				for _, n := range l.EmptyValued {
					if !named(n) {
						ev = append(ev, n)
					}
				}
				l.EmptyValued = ev
				var rn []string
				for _, n := range p.RespHeaderNames {
					if !named(n) {
						rn = append(rn, n)
					}
				}
				p.RespHeaderNames = rn
			}
			p.Date, p.Expires = l.Date, l.Expires
			for _, h := range l.ReqHeaders {
				p.ReqHeaderNames = append(p.ReqHeaderNames, h.Name)
			}
			for _, h := range l.RespHeaders {
				p.RespHeaderNames = append(p.RespHeaderNames, h.Name)
			}
			c.Event("%s; variations %v", l.Describe(), kinds)
			pub, err := l.Sign()
			if err != nil {
				// the library may refuse to produce some violating exchanges; nothing to verify then
				c.Event("publisher error: %v", err)
				c.Outcome("sign-refused")
				return
			}
			if integrityEdit != "" || overflowEdit != "" {
				label, ps, perr := refsxg.ParseSignature(pub.SignatureHeaderValue)
				if perr != nil {
					return
				}
				for i := range ps {
					if ps[i].Key == "integrity" && integrityEdit != "" {
						ps[i].Raw = refsxg.RawString(integrityEdit)
					}
					if ps[i].Key == overflowEdit {
						v := new(big.Int).Lsh(big.NewInt(int64(overflowK)), 64)
						base := l.Date
						if overflowEdit == "expires" {
							base = l.Expires
						}
						ps[i].Raw = v.Add(v, big.NewInt(base)).String()
					}
				}
				pub.SignatureHeaderValue = refsxg.FormatSignature(label, ps)
				var buf bytes.Buffer
				if pub.Write(&buf) == nil {
					l.File = buf.Bytes()
				}
			}
			if decoy != "" && integrityEdit == "" && overflowEdit == "" && !twoSignatures {
				if label, ps, perr := refsxg.ParseSignature(pub.SignatureHeaderValue); perr == nil {
					mid := l.Date + (l.Expires-l.Date)/2
					if l.Expires-l.Date > 604800 || l.Expires < l.Date {
						mid = l.Date
					}
					for i := range ps {
						switch ps[i].Key {
						case "sig":
							ps[i].Raw = "*AAAA*"
						case "date":
							ps[i].Raw = fmt.Sprint(mid - 300000)
						case "expires":
							ps[i].Raw = fmt.Sprint(mid + 300000)
						case "validity-url":
							ps[i].Raw = refsxg.RawString(fmt.Sprintf("%s://%s/decoy.validity", u.Scheme, u.Host))
						}
					}
					d := refsxg.FormatSignature(label+"d", ps)
					if decoy == "first" {
						pub.SignatureHeaderValue = d + ", " + pub.SignatureHeaderValue
					} else {
						pub.SignatureHeaderValue += ", " + d
					}
					var buf bytes.Buffer
					if pub.Write(&buf) == nil {
						l.File = buf.Bytes()
					}
					c.Probe("Signature header with an unsigned decoy entry")
				}
			}
			if twoSignatures {
				h := pub.SignatureHeaderValue
				pub.SignatureHeaderValue = h + c.PickStr("twoSig.sep", ", ", ",", " , ") + strings.Replace(h, "label", "label2", 1)
				var buf bytes.Buffer
				if pub.Write(&buf) == nil {
					l.File = buf.Bytes()
				}
				c.Probe("Signature header with two valid signatures")
			}
			if methodAbsent {
				// only the file can say "no method": rebuilt by the reference writer from what was
				// signed, minus the :method entry; the publisher's in-memory object is not judged
				if f, perr := refsxg.Parse(l.File); perr == nil {
					hb := refsxg.HeaderBlock(l.Version, l.URL, refsxg.MethodAbsent, f.Req, f.Status, f.Resp)
					l.File = refsxg.Build(l.Version, f.URL, pub.SignatureHeaderValue, hb, f.Payload)
					c.Probe("file whose request map has no :method entry")
				} else {
					methodAbsent = false
					p.Method = l.Method
				}
			}
			net := newCertNet(c)
			rd, rerr, pi, _ := readFile(c, l.File, c.DrawReaderPlan("cdn", len(l.File), false))
			if pi != nil {
				c.CheckTotal("ReadExchange", len(l.File), pi, 0)
			}
			objs := []*signedexchange.Exchange{pub}
			if methodAbsent {
				objs = nil
			}
			if rerr == nil && rd != nil {
				objs = append(objs, rd)
			}
			nver := c.Int("nverify", 1, 3)
			for i := 0; i < nver; i++ {
				tm := clientTime(c, l)
				want, why := refsxg.Accept(p, tm.Unix(), int64(tm.Nanosecond()), statusUnderstood)
				if overflowEdit != "" {
					want, why = false, "signature parameter not a representable integer"
				}
				for _, e := range objs {
					v := verify(c, e, tm, net)
					if v.pi != nil {
						c.CheckTotal("Exchange.Verify", len(l.File), v.pi, v.alloc)
					}
					if !c.Oracle("C09") {
						continue
					}
					stage := "after the write/read round trip"
					if e == pub {
						stage = "before the write/read round trip"
					}
					if v.ok && !want {
						c.Violation("accepted-violating-exchange", why, "Verify accepted (%s) an exchange violating: %s; t=%d.%09d window [%d,%d] variations %v", stage, why, tm.Unix(), tm.Nanosecond(), l.Date, l.Expires, kinds)
					}
					if !v.ok && want {
						c.Violation("rejected-conforming-exchange", "Exchange.Verify", "Verify rejected (%s) an exchange meeting every condition; t=%d.%09d window [%d,%d] variations %v status=%d cc=%q", stage, tm.Unix(), tm.Nanosecond(), l.Date, l.Expires, kinds, l.Status, p.CacheControl)
					}
					if v.ok && !bytes.Equal(v.payload, l.Payload) {
						c.Violation("accepted-wrong-payload", "Exchange.Verify", "payload differs")
					}
				}
				if want {
					c.Outcome("nt:accept")
				} else {
					c.Outcome("nt:reject:" + why)
				}
				c.SimTime(1)
			}
			// history on ONE object: the publisher edits the exchange it has just verified -
			// one response header renamed, the number of headers unchanged - signs it again
			// and verifies again; the verdict must be the new policy's, not a remembered one
			if c.Bool("editAndReverify") && integrityEdit == "" && overflowEdit == "" && !twoSignatures && decoy == "" && !methodAbsent && len(qualifiedNoCache) == 0 {
				var names []string
				for _, k := range core.SortedKeys(map[string][]string(pub.ResponseHeaders)) {
					lk := strings.ToLower(k)
					if lk != "content-type" && lk != "digest" && lk != "mi-draft2" && lk != "content-encoding" && lk != "cache-control" && lk != "expires" {
						names = append(names, k)
					}
				}
				if len(names) > 0 {
					old := names[c.Pick("reverify.header", len(names))]
					nn := c.PickStr("reverify.newName", "Set-Cookie", "sEt-cOOkie2", "X-Renamed-Ok", "Keep-Alive", "X-Other")
					if _, exists := pub.ResponseHeaders[nn]; !exists && !strings.EqualFold(nn, old) {
						v := pub.ResponseHeaders[old]
						delete(pub.ResponseHeaders, old)
						pub.ResponseHeaders[nn] = v
						var rn []string
						for _, n := range p.RespHeaderNames {
							if n == old || strings.EqualFold(n, old) {
								rn = append(rn, nn)
							} else {
								rn = append(rn, n)
							}
						}
						p2 := p
						p2.RespHeaderNames = rn
						if err := pub.AddSignatureHeader(l.Signer()); err == nil {
							tm := time.Unix(l.Date, 0)
							want, why := refsxg.Accept(p2, tm.Unix(), 0, statusUnderstood)
							v := verify(c, pub, tm, net)
							if c.Oracle("C09") && v.pi == nil {
								if v.ok && !want {
									c.Violation("accepted-violating-exchange", "after edit and re-sign: "+why, "the same object, edited (%q -> %q) and signed again, was accepted although it violates: %s", old, nn, why)
								}
								if !v.ok && want {
									c.Violation("rejected-conforming-exchange", "after edit and re-sign", "the same object, edited (%q -> %q) and signed again, was rejected although it meets every condition", old, nn)
								}
							}
							c.Probe("same object edited, re-signed and re-verified")
						}
					}
				}
			}
			c.Sig("%s/%v", l.Version, kinds)
		})
	})
}
