// World W-CERT: CertChain.Write / SerializeSCTList -> certificate-server blob
// -> ReadCertChain. Properties C17 (clean) and C10 (channel faults, watchdog).
package cert

import (
	"bytes"
	"crypto/x509"
	"encoding/binary"
	"testing"

	"github.com/WICG/webpackage/go/signedexchange/certurl"
	"pgregory.net/rapid"
	"verifsim/core"
	"verifsim/fixtures"
	"verifsim/ref/refcbor"
)

func TestMain(m *testing.M) { core.Main(m) }

const magic = "\U0001F4DC⛓"

type lcert struct {
	leaf *fixtures.Leaf // nil = CA
	der  []byte
	ocsp []byte // nil = absent
	sct  []byte
}

var blobLens = []int{0, 1, 2, 22, 23, 24, 25, 255, 256, 257, 1000, 65535, 65536}

func drawBlob(c *core.Ctx, label string) []byte {
	n := blobLens[c.Pick(label+".len", len(blobLens))]
	if n == 0 {
		c.Probe("zero-length blob (present but empty)")
	}
	return c.BytesN(label, n) // never nil: length 0 is "present but empty"
}

// emptyOCSP records that the invalid pattern uses a zero-length (but present) OCSP value.
var emptyOCSP bool

func drawChain(c *core.Ctx) ([]lcert, bool) {
	emptyOCSP = false
	n := c.Int("chain.n", 1, 4)
	if c.Chance("chain.long", 1, 12) {
		// around the CBOR head-size step of the enclosing array (24 items = 23 certificates)
		n = c.PickInt("chain.longN", 21, 22, 23, 24, 25, 40)
		c.Probe("chain of 21-40 certificates")
	}
	perm := c.Perm("chain.perm", len(fixtures.Leaves)+1)
	var ch []lcert
	for i := 0; i < n; i++ {
		var lc lcert
		if i >= len(perm) {
			// (long chains repeat certificates: cross-signed copies)
			lc.leaf = fixtures.Leaves[i%len(fixtures.Leaves)]
			lc.der = lc.leaf.DER
			ch = append(ch, lc)
			continue
		}
		if perm[i] == len(fixtures.Leaves) {
			// a CA certificate as chain element: EC, RSA or Ed25519 key
			lc.der = fixtures.Leaves[c.Pick("chain.ca", len(fixtures.Leaves))].CADER
		} else {
			lc.leaf = fixtures.Leaves[perm[i]]
			lc.der = lc.leaf.DER
		}
		ch = append(ch, lc)
	}
	// presence pattern
	valid := true
	pattern := c.Pick("chain.pattern", 7) // 0-3 valid, 4 missing on leaf, 5 present on a non-leaf, 6 empty-but-present on a non-leaf
	ch[0].ocsp = drawBlob(c, "chain.ocsp")
	switch pattern {
	case 4:
		ch[0].ocsp = nil
		valid = false
		c.Probe("OCSP missing on the leaf")
	case 5:
		if n > 1 {
			ch[c.Int("chain.ocspAt", 1, n-1)].ocsp = drawBlob(c, "chain.ocsp2")
			valid = false
			c.Probe("OCSP present on a non-leaf")
		}
	}
	if pattern == 6 && n > 1 {
		// present but zero-length: the writer would emit an "ocsp" key on a later element
		ch[c.Int("chain.ocspAt", 1, n-1)].ocsp = []byte{}
		valid = false
		emptyOCSP = true
		c.Probe("empty OCSP present on a non-leaf")
	}
	for i := range ch {
		if c.Chance("chain.sct", 1, 3) {
			ch[i].sct = drawBlob(c, "chain.sctBlob")
			if i > 0 {
				c.Probe("SCT on a non-leaf")
			}
		}
	}
	return ch, valid
}

func toRepo(ch []lcert) certurl.CertChain {
	var out certurl.CertChain
	for _, lc := range ch {
		cert, err := x509.ParseCertificate(lc.der)
		if err != nil {
			panic(err)
		}
		out = append(out, &certurl.AugmentedCertificate{Cert: cert, OCSPResponse: lc.ocsp, SCTList: lc.sct})
	}
	return out
}

// refEncode is the reference serialization of a chain (also of invalid ones).
func refEncode(ch []lcert) []byte {
	out := refcbor.AppendArray(nil, len(ch)+1)
	out = refcbor.AppendText(out, magic)
	for _, lc := range ch {
		kvs := []refcbor.KV{{K: refcbor.AppendText(nil, "cert"), V: refcbor.AppendBytes(nil, lc.der)}}
		if lc.ocsp != nil {
			kvs = append(kvs, refcbor.KV{K: refcbor.AppendText(nil, "ocsp"), V: refcbor.AppendBytes(nil, lc.ocsp)})
		}
		if lc.sct != nil {
			kvs = append(kvs, refcbor.KV{K: refcbor.AppendText(nil, "sct"), V: refcbor.AppendBytes(nil, lc.sct)})
		}
		out = refcbor.AppendMap(out, kvs)
	}
	return out
}

func readChain(c *core.Ctx, blob []byte, plan core.ReaderPlan) (certurl.CertChain, error, *core.PanicInfo, uint64) {
	sr := c.NewReader("certnet", blob, plan)
	src, _ := c.WrapSource("certnet", sr)
	var ch certurl.CertChain
	var err error
	pi, alloc := c.GuardAlloc("ReadCertChain", func() { ch, err = certurl.ReadCertChain(src) })
	return ch, err, pi, alloc
}

func TestClean(t *testing.T) {
	rapid.Check(t, func(t *rapid.T) {
		core.Run(t, "cert/clean", func(c *core.Ctx) {
			ch, valid := drawChain(c)
			c.Event("chain of %d, valid=%v", len(ch), valid)
			if valid && c.Chance("earlierFailedWrite", 1, 4) {
				// history: an earlier upload of some chain broke part-way
				ch0, _ := drawChain(c)
				ch0[0].ocsp = []byte("o")
				for i := 1; i < len(ch0); i++ {
					ch0[i].ocsp = nil
				}
				full := refEncode(ch0)
				fw := c.NewWriter("earlier", core.WriterPlan{FailAt: c.Int("earlier.failAt", 0, len(full)-1), Short: c.Bool("earlier.short")})
				c.Guard("CertChain.Write", func() { toRepo(ch0).Write(fw) })
				c.Probe("an earlier chain write failed part-way")
			}
			wp := core.WriterPlan{FailAt: -1, ReaderFrom: c.Bool("dst.readerFrom")}
			w := c.NewWriter("certnet", wp)
			var err error
			if pi := c.Guard("CertChain.Write", func() { err = toRepo(ch).Write(w) }); pi != nil {
				c.CheckTotal("CertChain.Write", 0, pi, 0)
			}
			blob := core.Unwrap(w).Accepted
			c.Sig("n%d/v%v/rf%v", len(ch), valid, wp.ReaderFrom)
			if valid && len(ch) >= 2 && c.Chance("aliasedElement", 1, 10) && c.Oracle("C17") {
				// a chain in which the very same element object stands first and again later: the
				// later position then carries an OCSP response, which only the first may
				obj := toRepo(ch)
				obj[c.Int("aliasedElement.at", 1, len(obj)-1)] = obj[0]
				var sink bytes.Buffer
				var aerr error
				c.Guard("CertChain.Write", func() { aerr = obj.Write(&sink) })
				if aerr == nil {
					c.Violation("invalid-chain-written", "CertChain.Write/aliased-element", "a chain whose first element object also stands at a later position (so that position carries an OCSP response) was written")
				}
				c.Probe("chain with the first element object repeated later")
			}
			if !valid {
				if c.Oracle("C17") {
					if err == nil {
						c.Violation("invalid-chain-written", "CertChain.Write", "a chain with an invalid OCSP presence pattern was written")
					}
					if len(blob) != 0 {
						c.Violation("refused-chain-partly-written", "CertChain.Write", "the chain was refused (%v) but %d bytes of it had already reached the destination", err, len(blob))
					}
					// the same chain, serialized by the reference encoder, must be refused by the reader
					rb := refEncode(ch)
					got, rerr, pi, _ := readChain(c, rb, c.DrawReaderPlan("certnet.read", len(rb), false))
					if pi != nil {
						c.CheckTotal("ReadCertChain", len(rb), pi, 0)
					}
					if rerr == nil {
						c.Violation("invalid-chain-read", "ReadCertChain", "a chain with an invalid OCSP presence pattern was accepted (%d certificates)", len(got))
					}
				}
				c.Outcome("nt:refused")
				return
			}
			if c.Oracle("C17") {
				if err != nil {
					c.Violation("write-error", "CertChain.Write", "valid chain refused: %v", err)
				}
				if !bytes.Equal(blob, refEncode(ch)) {
					c.Violation("not-canonical", "CertChain.Write", "output differs from the reference canonical serialization")
				}
				it, derr := refcbor.Decode(blob, 0)
				if derr != nil || it.Len != len(blob) || refcbor.Canonical(blob, it) != nil {
					c.Violation("not-canonical", "CertChain.Write", "output is not one canonical CBOR item: %v", derr)
				}
			}
			// the chain may be followed by other data on the same stream (concatenated items):
			// the reader must consume exactly the chain
			trailer := []byte(nil)
			if c.Bool("stream.trailer") {
				trailer = c.Bytes("stream.trailerBytes", 1, 6000)
			}
			full := append(append([]byte(nil), blob...), trailer...)
			plan := c.DrawReaderPlan("certnet.read", len(full), false)
			sr := c.NewReader("certnet", full, plan)
			var got certurl.CertChain
			var rerr error
			pi := c.Guard("ReadCertChain", func() { got, rerr = certurl.ReadCertChain(sr) })
			if pi != nil {
				c.CheckTotal("ReadCertChain", len(full), pi, 0)
			}
			if c.Oracle("C17", "C12") && rerr == nil && sr.Consumed() != len(blob) {
				c.Violation("wrong-consumption", "ReadCertChain", "the reader consumed %d bytes of the stream, the chain is %d bytes (%d bytes of other data follow)", sr.Consumed(), len(blob), len(trailer))
			}
			if c.Oracle("C17") {
				if rerr != nil {
					c.Violation("read-error", "ReadCertChain", "reader rejected the writer's output: %v", rerr)
				}
				if len(got) != len(ch) {
					c.Violation("roundtrip", "ReadCertChain", "%d certificates read, %d written", len(got), len(ch))
				}
				for i, lc := range ch {
					g := got[i]
					if !bytes.Equal(g.Cert.Raw, lc.der) || !bytes.Equal(g.OCSPResponse, lc.ocsp) || !bytes.Equal(g.SCTList, lc.sct) || (g.OCSPResponse == nil) != (lc.ocsp == nil) || (g.SCTList == nil) != (lc.sct == nil) {
						c.Violation("roundtrip", "ReadCertChain", "certificate %d differs after the round trip", i)
					}
				}
			}
			// the same bytes once more, through whatever Go type the caller happens to hold them in
			// (a file or section positioned behind other data, a pipe, a bufio.Reader ...)
			if c.Oracle("C17", "C12") && rerr == nil {
				got2, rerr2, pi2, _ := readChain(c, blob, c.DrawReaderPlan("certnet.read2", len(blob), false))
				if pi2 != nil {
					c.CheckTotal("ReadCertChain", len(blob), pi2, 0)
				}
				if rerr2 != nil || len(got2) != len(ch) {
					c.Violation("read-error", "ReadCertChain/other-source-type", "the writer's output, read through another reader type: %v (%d certificates of %d)", rerr2, len(got2), len(ch))
				}
				for i, lc := range ch {
					if g := got2[i]; !bytes.Equal(g.Cert.Raw, lc.der) || !bytes.Equal(g.OCSPResponse, lc.ocsp) || !bytes.Equal(g.SCTList, lc.sct) {
						c.Violation("roundtrip", "ReadCertChain/other-source-type", "certificate %d differs after the round trip", i)
					}
				}
			}
			// history: another chain is read afterwards; the first result must be unchanged
			if c.Oracle("C17") && rerr == nil && c.Bool("readOtherAfterwards") {
				ch2, _ := drawChain(c)
				ch2[0].ocsp = []byte("x")
				for i := 1; i < len(ch2); i++ {
					ch2[i].ocsp = nil
				}
				readChain(c, refEncode(ch2), core.ReaderPlan{ErrAt: -1})
				for i, lc := range ch {
					g := got[i]
					if !bytes.Equal(g.Cert.Raw, lc.der) || !bytes.Equal(g.OCSPResponse, lc.ocsp) || !bytes.Equal(g.SCTList, lc.sct) {
						c.Violation("roundtrip", "ReadCertChain/earlier-result-after-later-read", "certificate %d of the first chain changed after another chain was read", i)
					}
				}
			}
			// history: the caller keeps its chain object, refreshes one field IN PLACE (a new OCSP
			// response, an SCT list added) and writes it again: the new bytes are the new chain's
			if c.Oracle("C17") && c.Chance("updateInPlace", 1, 3) {
				obj := toRepo(ch)
				var b1, b2 bytes.Buffer
				c.Guard("CertChain.Write", func() { obj.Write(&b1) })
				ch2 := append([]lcert(nil), ch...)
				switch c.Pick("updateInPlace.what", 3) {
				case 0:
					ch2[0].ocsp = append([]byte("fresh-"), ch[0].ocsp...)
					obj[0].OCSPResponse = ch2[0].ocsp
				case 1:
					k := c.Pick("updateInPlace.at", len(ch2))
					ch2[k].sct = []byte("sct-added-later")
					obj[k].SCTList = ch2[k].sct
				default:
					k := c.Pick("updateInPlace.at", len(ch2))
					other := fixtures.Leaves[c.Pick("updateInPlace.cert", len(fixtures.Leaves))]
					ch2[k].der = other.DER
					obj[k].Cert = other.Cert()
				}
				var werr error
				c.Guard("CertChain.Write", func() { werr = obj.Write(&b2) })
				if werr != nil || !bytes.Equal(b2.Bytes(), refEncode(ch2)) {
					c.Violation("stale-output", "CertChain.Write", "a chain object updated in place and written again yields bytes that are not the updated chain's (err=%v)", werr)
				}
				c.Probe("chain object updated in place between two writes")
			}
			// history: the tool's way - one bytes.Buffer is destination and source, reused for the
			// next chain while the caller still holds the first parsed chain
			if c.Oracle("C17") && c.Chance("reuseOneBuffer", 1, 3) {
				var buf bytes.Buffer
				var first certurl.CertChain
				var e1, e2 error
				if pi := c.Guard("CertChain.Write+ReadCertChain", func() {
					if e1 = toRepo(ch).Write(&buf); e1 == nil {
						first, e2 = certurl.ReadCertChain(&buf)
					}
				}); pi != nil {
					c.CheckTotal("ReadCertChain", buf.Len(), pi, 0)
				}
				if e1 != nil || e2 != nil {
					c.Violation("read-error", "ReadCertChain/reused-buffer", "round trip through a bytes.Buffer failed: %v / %v", e1, e2)
				}
				ch2, _ := drawChain(c)
				ch2[0].ocsp = []byte("another-ocsp-response")
				for i := 1; i < len(ch2); i++ {
					ch2[i].ocsp = nil
				}
				buf.Reset()
				c.Guard("CertChain.Write+ReadCertChain", func() {
					if toRepo(ch2).Write(&buf) == nil {
						certurl.ReadCertChain(&buf)
					}
				})
				// ... and finally the buffer's memory is reused for something else entirely
				raw := buf.Bytes()
				raw = raw[:cap(raw)]
				for i := range raw {
					raw[i] = 0xa5
				}
				if len(first) != len(ch) {
					c.Violation("roundtrip", "ReadCertChain/reused-buffer", "%d certificates read, %d written", len(first), len(ch))
				}
				for i, lc := range ch {
					g := first[i]
					if !bytes.Equal(g.Cert.Raw, lc.der) || !bytes.Equal(g.OCSPResponse, lc.ocsp) || !bytes.Equal(g.SCTList, lc.sct) {
						c.Violation("roundtrip", "ReadCertChain/result-after-buffer-reuse", "certificate %d of a parsed chain changed when the buffer it was read from was reused", i)
					}
				}
				c.Probe("parsed chain re-checked after its source buffer was reused")
			}
			c.Outcome("nt:ok")
			c.Sig("m%d", plan.Mode)
		})
	})
}

// refSCT parses an RFC 6962 SignedCertificateTimestampList.
func refSCT(b []byte) ([][]byte, bool) {
	if len(b) < 2 || int(binary.BigEndian.Uint16(b)) != len(b)-2 {
		return nil, false
	}
	b = b[2:]
	var out [][]byte
	for len(b) > 0 {
		if len(b) < 2 {
			return nil, false
		}
		n := int(binary.BigEndian.Uint16(b))
		if len(b) < 2+n {
			return nil, false
		}
		out = append(out, b[2:2+n])
		b = b[2+n:]
	}
	return out, true
}

func TestSCTList(t *testing.T) {
	rapid.Check(t, func(t *rapid.T) {
		core.Run(t, "cert/sct-list", func(c *core.Ctx) {
			// history: several lists are serialized one after another and every result
			// must still be intact after the later calls
			type kept struct {
				out  []byte
				copy []byte
			}
			var earlier []kept
			rounds := c.Int("sct.rounds", 1, 3)
			for round := 0; round < rounds; round++ {
				out := sctOnce(c)
				for i, k := range earlier {
					if c.Oracle("C17") && !bytes.Equal(k.out, k.copy) {
						c.Violation("sct-result-changed-later", "SerializeSCTList", "the result of call %d was modified by call %d", i, round)
					}
				}
				if out != nil {
					earlier = append(earlier, kept{out, append([]byte(nil), out...)})
				}
			}
		})
	})
}

func sctOnce(c *core.Ctx) []byte {
	{
		{
			n := c.Int("sct.n", 0, 5)
			var scts [][]byte
			total := 0
			tooBig := false
			for i := 0; i < n; i++ {
				l := c.PickInt("sct.len", 0, 1, 33, 100, 1000, 21842, 32765, 32766, 32767, 65531, 65532, 65533, 65534, 65535, 65536)
				if c.Chance("sct.fit", 1, 4) && 65535-total-2 >= 0 {
					l = 65535 - total - 2 + c.PickInt("sct.fitDelta", -1, 0, 1)
					if l < 0 {
						l = 0
					}
				}
				data := c.BytesN("sct.data", l)
				if c.Chance("sct.listShaped", 1, 6) {
					// an SCT whose own bytes are shaped like a serialized SCT list (e.g. the result
					// of an earlier call handed in again): it is one element like any other
					var inner []byte
					for j, m := 0, c.Int("sct.listShaped.n", 1, 3); j < m; j++ {
						e := c.Bytes("sct.listShaped.elem", 1, 20)
						inner = append(append(inner, byte(len(e)>>8), byte(len(e))), e...)
					}
					data = append([]byte{byte(len(inner) >> 8), byte(len(inner))}, inner...)
					l = len(data)
					c.Probe("SCT shaped like a serialized SCT list")
				}
				scts = append(scts, data)
				total += l + 2
				if l > 65535 {
					tooBig = true
				}
			}
			expectErr := tooBig || total > 65535
			if total == 65535 {
				c.Probe("SCT list total == 65535")
			}
			if total == 65536 {
				c.Probe("SCT list total == 65536")
			}
			var out []byte
			var err error
			if pi := c.Guard("SerializeSCTList", func() { out, err = certurl.SerializeSCTList(scts) }); pi != nil {
				c.CheckTotal("SerializeSCTList", total, pi, 0)
			}
			c.Event("%d SCTs, total %d -> err=%v", n, total, err != nil)
			if c.Oracle("C17") {
				if expectErr != (err != nil) {
					c.Violation("sct-limit", "SerializeSCTList", "total %d bytes, element too big=%v: error=%v", total, tooBig, err)
				}
				if err == nil {
					got, ok := refSCT(out)
					if !ok || len(got) != len(scts) {
						c.Violation("sct-malformed", "SerializeSCTList", "output is not a well-formed length-prefixed vector of %d elements", len(scts))
					}
					for i := range scts {
						if !bytes.Equal(got[i], scts[i]) {
							c.Violation("sct-content", "SerializeSCTList", "element %d differs", i)
						}
					}
				}
			}
			c.Outcome("nt:done")
			c.Sig("n%d/t%d/e%v", n, total/8192, expectErr)
			return out
		}
	}
}

// TestChannelFaults: a valid chain blob damaged on its way to the reader
// (C10: the reader is total and resource-bounded).
func TestChannelFaults(t *testing.T) {
	rapid.Check(t, func(t *rapid.T) {
		core.Run(t, "cert/channel-faults", func(c *core.Ctx) {
			ch, _ := drawChain(c)
			ch[0].ocsp = []byte("ocsp")
			for i := 1; i < len(ch); i++ {
				ch[i].ocsp = nil
			}
			blob := refEncode(ch)
			n := c.Int("nfaults", 1, 3)
			if c.Chance("hostileMember", 1, 12) {
				// a well-formed chain whose first certificate map has one more member, under an
				// unknown key, whose value is nested arrays / maps / tags tens of thousands to
				// millions deep (nothing in the format nests; a parser that walks "any" value does)
				depth := c.PickInt("hostileMember.depth", 1<<10, 1<<16, 1<<20, 1<<24)
				unit := c.PickStr("hostileMember.unit", "\x81", "\xa1\x00", "\xc1", "\x82\x00")
				nested := append(bytes.Repeat([]byte(unit), depth), 0x00)
				it, derr := refcbor.Decode(blob, 0)
				if derr == nil && it.Major == 4 && len(it.Elems) >= 2 && it.Elems[1].Major == 5 {
					m := it.Elems[1]
					head := refcbor.AppendHead(nil, 5, uint64(len(m.Elems)/2+1))
					body := append([]byte(nil), blob[m.Off+m.HeadLen:m.Off+m.Len]...)
					member := append(refcbor.AppendText(nil, c.PickStr("hostileMember.key", "zz", "a", "extra")), nested...)
					nb := append(append([]byte(nil), blob[:m.Off]...), head...)
					nb = append(append(nb, body...), member...)
					blob = append(nb, blob[m.Off+m.Len:]...)
					n = 0
					c.Fault("chain-member-nested-very-deep")
				}
			}
			for i := 0; i < n; i++ {
				blob = c.CorruptBlob("blob", blob, nil)
			}
			plan := c.DrawReaderPlan("certnet.read", len(blob), true)
			if len(blob) > 300000 {
				plan = core.ReaderPlan{ErrAt: -1} // (megabytes are not delivered byte by byte)
			}
			_, err, pi, alloc := readChain(c, blob, plan)
			if c.Oracle("C10") {
				c.CheckTotal("ReadCertChain", len(blob), pi, alloc)
			}
			if err != nil {
				c.Outcome("rejected")
			} else {
				c.Outcome("accepted")
			}
			c.Sig("n%d", len(ch))
		})
	})
}

// TestTruncation: a valid chain cut short (torn transfer) must never be
// returned as a (shorter) chain: every proper prefix is refused. All prefixes
// for chains up to 1500 bytes, 96 drawn cut points otherwise.
func TestTruncation(t *testing.T) {
	rapid.Check(t, func(t *rapid.T) {
		core.Run(t, "cert/truncation", func(c *core.Ctx) {
			ch, _ := drawChain(c)
			ch[0].ocsp = c.Bytes("ocsp", 1, 30)
			for i := range ch {
				if i > 0 {
					ch[i].ocsp = nil
				}
				if len(ch[i].sct) > 200 {
					ch[i].sct = ch[i].sct[:200]
				}
			}
			blob := refEncode(ch)
			var cuts []int
			if len(blob) <= 1500 {
				for k := 0; k < len(blob); k++ {
					cuts = append(cuts, k)
				}
				core.ExhaustiveDone("C17: every proper prefix of one chain", 1)
			} else {
				for i := 0; i < 96; i++ {
					cuts = append(cuts, c.Int("cut", 0, len(blob)-1))
				}
			}
			for _, k := range cuts {
				got, err, pi, alloc := readChain(c, blob[:k], core.ReaderPlan{ErrAt: -1})
				if c.Oracle("C10", "C17") {
					c.CheckTotal("ReadCertChain", k, pi, alloc)
				}
				if c.Oracle("C17") && pi == nil && err == nil {
					c.Violation("truncated-chain-accepted", "ReadCertChain", "a chain of %d certificates (%d bytes) cut at %d was returned as a chain of %d", len(ch), len(blob), k, len(got))
				}
			}
			c.Fault("chan-truncate")
			c.Outcome("done")
			c.Sig("n%d/len%d", len(ch), len(blob)/256)
		})
	})
}
