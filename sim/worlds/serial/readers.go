package serial

// Reader and verifier instances: the same machinery that judges serializers
// (solo run = model; histories, cooperative interleavings at every destination
// Write and - in the instrumented binary - at every function entry and loop head
// of the library, real parallel runs under the race detector) applied to the
// repository's PARSERS and VERIFIERS. One instance = one shared, read-only input
// (a file image, a certificate chain, a digest) and one call sequence whose
// result is written out in a canonical form; that result must be the same
// whatever else the process did before or does meanwhile. They run under the
// reader's own property (C01, C05, C15, C17), never under C18.

import (
	"bytes"
	"crypto/x509"
	"fmt"
	"io"
	"log"
	"net/http"
	"net/url"
	"sort"
	"time"

	"github.com/WICG/webpackage/go/bundle"
	"github.com/WICG/webpackage/go/bundle/signature"
	bversion "github.com/WICG/webpackage/go/bundle/version"
	"github.com/WICG/webpackage/go/verifhook"
	"github.com/WICG/webpackage/go/signedexchange"
	"github.com/WICG/webpackage/go/signedexchange/certurl"
	"github.com/WICG/webpackage/go/signedexchange/mice"
	"verifsim/core"
	"verifsim/fixtures"
	"verifsim/gen"
	"verifsim/ref/refmice"
)

var quietLog = log.New(io.Discard, "", 0)

func dumpHeader(w io.Writer, h map[string][]string) {
	ks := make([]string, 0, len(h))
	for k := range h {
		ks = append(ks, k)
	}
	sort.Strings(ks)
	for _, k := range ks {
		fmt.Fprintf(w, "%q=%q;", k, h[k])
	}
}

// sxgVerifyInst: ReadExchange + Verify of one (possibly damaged) file.
func sxgVerifyInst(c *core.Ctx, label string) *inst {
	var l *gen.LSXG
	for {
		l = gen.DrawSXG(c, label, 1)
		l.Leaf = maybeFresh(c, label, l.Leaf)
		if _, err := l.Sign(); err == nil {
			break
		}
	}
	file := l.File
	if c.Chance(label+".damaged", 1, 4) {
		file = c.CorruptBlob(label+".blob", file, nil)
	}
	chain := gen.ChainBytes(l.Leaf, []byte("ocsp-"+l.Leaf.Name))
	tm := time.Unix(l.Date+c.I64(label+".t", 0, l.Expires-l.Date), 0)
	in := &inst{name: label + ":ReadExchange+Verify", props: []string{"C01", "C09"}}
	in.run = func(w io.Writer) error {
		e, err := signedexchange.ReadExchange(bytes.NewReader(file))
		if err != nil {
			_, werr := io.WriteString(w, "unreadable")
			return werr
		}
		payload, ok := e.Verify(tm, func(string) ([]byte, error) { return chain, nil }, quietLog)
		var b bytes.Buffer
		fmt.Fprintf(&b, "%v|%s|%s|%s|%d|", ok, e.Version, e.RequestURI, e.RequestMethod, e.ResponseStatus)
		dumpHeader(&b, e.RequestHeaders)
		dumpHeader(&b, e.ResponseHeaders)
		fmt.Fprintf(&b, "|%x", payload)
		_, werr := w.Write(b.Bytes())
		return werr
	}
	in.sharedHash = func() uint64 { return fnvOf(file[:cap(file)], chain[:cap(chain)]) }
	return in
}

// bundleReadInst: bundle.Read of one (possibly damaged) file image.
func bundleReadInst(c *core.Ctx, label string) *inst {
	var data []byte
	for {
		lb := gen.DrawBundle(c, 4, true)
		if lb.ExpectWriteError {
			continue
		}
		var buf bytes.Buffer
		if _, err := lb.ToRepo().WriteTo(&buf); err == nil {
			data = buf.Bytes()
			break
		}
	}
	if c.Chance(label+".damaged", 1, 4) {
		data = c.CorruptBlob(label+".blob", data, nil)
	}
	in := &inst{name: label + ":bundle.Read", props: []string{"C05"}}
	in.run = func(w io.Writer) error {
		b, err := bundle.Read(bytes.NewReader(data))
		if err != nil {
			_, werr := io.WriteString(w, "unreadable")
			return werr
		}
		var o bytes.Buffer
		fmt.Fprintf(&o, "%s|%v|%v|%v|", b.Version, b.PrimaryURL, b.ManifestURL, b.Signatures != nil)
		for _, e := range b.Exchanges {
			fmt.Fprintf(&o, "%v|%d|", e.Request.URL, e.Response.Status)
			dumpHeader(&o, e.Response.Header)
			fmt.Fprintf(&o, "|%x\n", e.Response.Body)
		}
		if b.Signatures != nil {
			for _, a := range b.Signatures.Authorities {
				fmt.Fprintf(&o, "A%x|%x|%x\n", fnvOf(a.Cert.Raw), a.OCSPResponse, a.SCTList)
			}
			for _, v := range b.Signatures.VouchedSubsets {
				fmt.Fprintf(&o, "V%d|%x|%x\n", v.Authority, v.Sig, v.Signed)
			}
		}
		_, werr := w.Write(o.Bytes())
		return werr
	}
	in.sharedHash = func() uint64 { return fnvOf(data[:cap(data)]) }
	return in
}

// certReadInst: ReadCertChain of one chain file.
func certReadInst(c *core.Ctx, label string) *inst {
	leaf := fixturesLeaf(c, label)
	ocsp := c.Bytes(label+".ocsp", 1, 200)
	var sct []byte
	if c.Bool(label + ".hasSct") {
		sct = c.Bytes(label+".sct", 0, 60)
	}
	chain, err := certurl.NewCertChain(certsOf(leaf), ocsp, sct)
	if err != nil {
		panic(err)
	}
	var buf bytes.Buffer
	if err := chain.Write(&buf); err != nil {
		panic(err)
	}
	data := buf.Bytes()
	if c.Chance(label+".damaged", 1, 4) {
		data = c.CorruptBlob(label+".blob", data, nil)
	}
	in := &inst{name: label + ":ReadCertChain", props: []string{"C17"}}
	in.run = func(w io.Writer) error {
		ch, err := certurl.ReadCertChain(bytes.NewReader(data))
		if err != nil {
			_, werr := io.WriteString(w, "unreadable")
			return werr
		}
		var o bytes.Buffer
		for _, a := range ch {
			fmt.Fprintf(&o, "%x|%v%x|%v%x\n", a.Cert.Raw, a.OCSPResponse == nil, a.OCSPResponse, a.SCTList == nil, a.SCTList)
		}
		_, werr := w.Write(o.Bytes())
		return werr
	}
	in.sharedHash = func() uint64 { return fnvOf(data[:cap(data)]) }
	return in
}

// miDecodeInst: NewDecoder + reads with small and large buffers over one stream.
func miDecodeInst(c *core.Ctx, label string) *inst {
	enc, d := mice.Draft03Encoding, refmice.Draft03
	if c.Bool(label + ".draft02") {
		enc, d = mice.Draft02Encoding, refmice.Draft02
	}
	rs := c.PickInt(label+".rs", 1, 3, 16, 100, 4096)
	payload := c.Bytes(label+".payload", 0, 300)
	digest, stream := refmice.Encode(d, payload, rs)
	if c.Chance(label+".damaged", 1, 4) {
		stream = c.CorruptBlob(label+".blob", stream, nil)
	}
	bufLen := c.PickInt(label+".buf", 1, 7, rs, rs+1, 4096)
	if bufLen < 1 {
		bufLen = 1
	}
	in := &inst{name: label + ":mice.decoder", props: []string{"C15"}}
	in.run = func(w io.Writer) error {
		r, err := enc.NewDecoder(bytes.NewReader(stream), digest, 16384)
		if err != nil {
			_, werr := io.WriteString(w, "refused")
			return werr
		}
		var o bytes.Buffer
		buf := make([]byte, bufLen)
		for i := 0; i < 4*len(stream)+64; i++ {
			n, err := r.Read(buf)
			o.Write(buf[:n])
			if err != nil {
				fmt.Fprintf(&o, "|eof=%v", err == io.EOF)
				break
			}
		}
		_, werr := w.Write(o.Bytes())
		return werr
	}
	in.sharedHash = func() uint64 { return fnvOf(stream[:cap(stream)], []byte(digest)) }
	return in
}

func fixturesLeaf(c *core.Ctx, label string) *fixtures.Leaf {
	return maybeFresh(c, label, fixtures.Leaves[c.Pick(label+".leaf", len(fixtures.Leaves))])
}

// maybeFresh: in half of the draws the certificates are content-fresh (never seen
// by this process before), so that whatever the code under test remembers about
// certificates is filled in during the judged calls, not before them.
func maybeFresh(c *core.Ctx, label string, l *fixtures.Leaf) *fixtures.Leaf {
	if c.Bool(label + ".freshCert") {
		c.Probe("content-fresh certificates")
		return fixtures.Fresh(l, c.Bytes(label+".certSalt", 6, 6))
	}
	return l
}

func certsOf(l *fixtures.Leaf) []*x509.Certificate {
	return []*x509.Certificate{l.Cert(), l.Issuer()}
}

var readerMakers = map[string][]func(c *core.Ctx) *inst{
	"C01": {func(c *core.Ctx) *inst { return sxgVerifyInst(c, "rsxg") }},
	"C05": {func(c *core.Ctx) *inst { return bundleReadInst(c, "rbundle") }},
	"C17": {func(c *core.Ctx) *inst { return certReadInst(c, "rchain") }},
	"C15": {func(c *core.Ctx) *inst { return miDecodeInst(c, "rmice") }},
}

// bsigVerifyInst: one signed bundle file (one or two signers); each call reads it,
// builds a Verifier and verifies every exchange (C06). With sharedVerifier the
// bundle is read and the Verifier built once, and the calls share both.
func bsigVerifyInst(c *core.Ctx, label string, sharedVerifier bool) *inst {
	ver := bversion.Version(c.PickStr(label+".version", "b1", "b2"))
	b := &bundle.Bundle{Version: ver}
	nsigners := c.Int(label+".signers", 1, 2)
	if sharedVerifier {
		nsigners = 2
	}
	perm := c.Perm(label+".leaves", len(fixtures.Leaves))
	var leaves []*fixtures.Leaf
	used := map[string]bool{}
	for _, pi := range perm {
		l := maybeFresh(c, label, fixtures.Leaves[pi])
		h := l.Hosts[0]
		if h[0] == '*' {
			h = "sub" + h[1:]
		}
		clash := false
		for _, o := range leaves { // no host covered by two signers
			for _, oh := range o.Hosts {
				for _, lh := range l.Hosts {
					if oh == lh {
						clash = true
					}
				}
			}
		}
		if !clash && !used[h] && len(leaves) < nsigners {
			leaves = append(leaves, l)
			used[h] = true
		}
	}
	k := 0
	for _, leaf := range leaves {
		host := leaf.Hosts[0]
		if host[0] == '*' {
			host = "sub" + host[1:]
		}
		for i, n := 0, c.Int(label+".nex", 1, 3); i < n; i++ {
			u, _ := url.Parse(fmt.Sprintf("https://%s/r%d", host, k))
			r := gen.DrawResp(c, label+".resp", k)
			r.DirectMap = false
			if len(r.Body) > 1500 {
				r.Body = r.Body[:1500]
			}
			b.Exchanges = append(b.Exchanges, &bundle.Exchange{Request: bundle.Request{URL: u}, Response: bundle.Response{Status: r.Status, Header: r.Header(), Body: r.Body}})
			k++
		}
	}
	if c.Bool(label + ".uncovered") {
		u, _ := url.Parse(fmt.Sprintf("https://uncovered.invalid/r%d", k))
		b.Exchanges = append(b.Exchanges, &bundle.Exchange{Request: bundle.Request{URL: u}, Response: bundle.Response{Status: 200, Header: http.Header{"Content-Type": {"text/plain"}}, Body: []byte("uncovered")}})
	}
	b.PrimaryURL = b.Exchanges[0].Request.URL
	date := c.I64(label+".date", 1600000000, 1700000000)
	rs := c.PickInt(label+".rs", 16, 100, 4096)
	for _, leaf := range leaves {
		host := leaf.Hosts[0]
		if host[0] == '*' {
			host = "sub" + host[1:]
		}
		chain, err := certurl.NewCertChain(certsOf(leaf), []byte("ocsp"), nil)
		if err != nil {
			panic(err)
		}
		vu, _ := url.Parse("https://" + host + "/validity")
		signer, err := signature.NewSigner(ver, chain, leaf.Key, vu, time.Unix(date, 0), time.Hour)
		if err != nil {
			panic(err)
		}
		signer.Algorithm, _ = verifhook.SigningAlgorithmForPrivateKey(leaf.Key, fixtures.ConstReader{B: byte(c.Int(label+".entropy", 0, 255))})
		for _, e := range b.Exchanges {
			if !signer.CanSignForURL(e.Request.URL) {
				continue
			}
			pih, err := e.AddPayloadIntegrity(ver, rs)
			if err != nil {
				panic(err)
			}
			if err := signer.AddExchange(e, pih); err != nil {
				panic(err)
			}
		}
		if b.Signatures, err = signer.UpdateSignatures(b.Signatures); err != nil {
			panic(err)
		}
	}
	var buf bytes.Buffer
	if _, err := b.WriteTo(&buf); err != nil {
		panic(err)
	}
	file := buf.Bytes()
	if !sharedVerifier && c.Chance(label+".damaged", 1, 4) {
		file = c.CorruptBlob(label+".blob", file, nil)
	}
	tm := time.Unix(date+c.I64(label+".t", 0, 3600), 0)
	dump := func(w io.Writer, rb *bundle.Bundle, v *signature.Verifier) error {
		var o bytes.Buffer
		for _, e := range rb.Exchanges {
			r, err := v.VerifyExchange(e)
			switch {
			case err != nil:
				fmt.Fprintf(&o, "%v|refused\n", e.Request.URL)
			case r == nil:
				fmt.Fprintf(&o, "%v|unsigned\n", e.Request.URL)
			default:
				fmt.Fprintf(&o, "%v|%x|%x\n", e.Request.URL, r.VerifiedPayload, fnvOf(r.Authority.Cert.Raw))
			}
		}
		_, werr := w.Write(o.Bytes())
		return werr
	}
	in := &inst{name: label + ":bundle.Read+NewVerifier+VerifyExchange", props: []string{"C06"}}
	in.sharedHash = func() uint64 { return fnvOf(file[:cap(file)]) }
	if sharedVerifier {
		rb, err := bundle.Read(bytes.NewReader(file))
		if err != nil {
			panic(err)
		}
		v, err := signature.NewVerifier(rb.Signatures, tm, rb.Version)
		if err != nil {
			panic(err)
		}
		in.name = label + ":VerifyExchange(one Verifier shared by all callers)"
		in.run = func(w io.Writer) error { return dump(w, rb, v) }
		in.reference = func() *inst {
			rb2, err := bundle.Read(bytes.NewReader(file))
			if err != nil {
				panic(err)
			}
			v2, err := signature.NewVerifier(rb2.Signatures, tm, rb2.Version)
			if err != nil {
				panic(err)
			}
			return &inst{name: in.name, props: in.props, run: func(w io.Writer) error { return dump(w, rb2, v2) }}
		}
		return in
	}
	in.run = func(w io.Writer) error {
		rb, err := bundle.Read(bytes.NewReader(file))
		if err != nil || rb.Signatures == nil {
			_, werr := io.WriteString(w, "unreadable-or-unsigned")
			return werr
		}
		v, err := signature.NewVerifier(rb.Signatures, tm, rb.Version)
		if err != nil {
			_, werr := io.WriteString(w, "verifier-refused")
			return werr
		}
		return dump(w, rb, v)
	}
	return in
}

func init() {
	c06 := []func(c *core.Ctx) *inst{
		func(c *core.Ctx) *inst { return bsigVerifyInst(c, "rbsig", false) },
		func(c *core.Ctx) *inst { return bsigVerifyInst(c, "rbsigv", true) },
	}
	readerMakers["C06"] = c06
	readerMakers["C09"] = readerMakers["C01"] // the verifier's verdict, under schedules
	// C10 (no panic, bounded): every reader instance
	var all []func(c *core.Ctx) *inst
	for _, p := range []string{"C01", "C05", "C15", "C17"} {
		all = append(all, readerMakers[p]...)
	}
	readerMakers["C10"] = append(all, c06...)
	// C14: the MI encoder and decoder, for the schedule-dependent configurations
	readerMakers["C14"] = []func(c *core.Ctx) *inst{
		func(c *core.Ctx) *inst { return miceInst(c, "mice") },
		func(c *core.Ctx) *inst { return miceDigestInst(c, "miced") },
		func(c *core.Ctx) *inst { return miDecodeInst(c, "rmice") },
	}
}
