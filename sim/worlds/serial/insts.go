// Package serial holds world W-SERIAL: all serializers of the repository run
// as caller tasks over shared read-only inputs, with simulated destination
// devices. Properties C18 (history, interleave, parallel-race) and C19
// (write-fault).
package serial

import (
	"net/http"
	"strings"
	"bytes"
	"crypto/ed25519"
	"crypto/sha256"
	"crypto/x509"
	"fmt"
	"hash/fnv"
	"io"
	"net/url"
	"sort"
	"sync/atomic"
	"time"

	"github.com/WICG/webpackage/go/bundle"
	"github.com/WICG/webpackage/go/bundle/signature"
	bversion "github.com/WICG/webpackage/go/bundle/version"
	"github.com/WICG/webpackage/go/integrityblock"
	"github.com/WICG/webpackage/go/integrityblock/webbundleid"
	"github.com/WICG/webpackage/go/signedexchange"
	"github.com/WICG/webpackage/go/signedexchange/certurl"
	"github.com/WICG/webpackage/go/signedexchange/mice"
	"github.com/WICG/webpackage/go/signedexchange/structuredheader"
	sxgversion "github.com/WICG/webpackage/go/signedexchange/version"
	"github.com/WICG/webpackage/go/verifhook"
	"verifsim/core"
	"verifsim/fixtures"
	"verifsim/gen"
)

// inst is one serializer bound to one logical input.
//
// run performs one serialization into w using the instance's (possibly
// shared) repository objects. variant, when non-nil, builds an equivalent
// instance from the same logical input with a different construction history
// (map insertion order, insert/delete noise, fresh objects); its output must
// be byte-identical. count, when non-nil, returns the byte count the last run
// reported (bundle writer).
type inst struct {
	name    string
	run     func(w io.Writer) error
	variant func(c *core.Ctx) *inst
	count   func() int64
	writer  bool // takes an io.Writer itself (eligible for C19)
	seqOnly bool // writes to its own objects between calls: sequential histories only
	// shared read-only inputs and how to fingerprint them (before/after)
	sharedHash func() uint64
	// props: the properties this instance is judged under (nil = C18, and C19 for writers)
	props []string
	// reference, when non-nil, returns an independent but equivalent instance (own objects
	// built from the same logical input, no draws): the model output is taken from IT, so
	// that the shared objects of this instance are still untouched - first use included -
	// when the judged calls begin
	reference func() *inst
}

// judged reports whether the instance's purity clauses apply under the active property.
func (in *inst) judged(c *core.Ctx) bool {
	if in.props == nil {
		return c.Oracle("C18")
	}
	return c.Oracle(in.props...)
}

func writeAll(w io.Writer, b []byte, err error) error {
	if err != nil {
		return err
	}
	_, werr := w.Write(b)
	return werr
}

func fnvOf(parts ...[]byte) uint64 {
	h := fnv.New64a()
	for _, p := range parts {
		h.Write(p)
		h.Write([]byte{0xfe})
	}
	return h.Sum64()
}

// shuffleHeaders permutes a header list, keeping the relative order of lines
// with the same (case-insensitive) name: same logical header set.
func shuffleHeaders(c *core.Ctx, label string, hs []gen.HV) []gen.HV {
	type grp struct {
		key string
		hvs []gen.HV
	}
	var groups []grp
	idx := map[string]int{}
	for _, h := range hs {
		k := lower(h.Name)
		if i, ok := idx[k]; ok {
			groups[i].hvs = append(groups[i].hvs, h)
		} else {
			idx[k] = len(groups)
			groups = append(groups, grp{k, []gen.HV{h}})
		}
	}
	var out []gen.HV
	for _, i := range c.Perm(label, len(groups)) {
		out = append(out, groups[i].hvs...)
	}
	return out
}

func lower(s string) string {
	b := []byte(s)
	for i := range b {
		if b[i] >= 'A' && b[i] <= 'Z' {
			b[i] += 32
		}
	}
	return string(b)
}

// ---- bundle -----------------------------------------------------------------------

type switchWriter struct{ w io.Writer }

func (s *switchWriter) Write(p []byte) (int, error) { return s.w.Write(p) }

// writeBundleTo writes b into w, either directly or - viaCW - through an exported
// CountingWriter of the caller's that has already counted a preamble written
// elsewhere (the preamble goes to a sink, so w receives the bundle alone).
func writeBundleTo(b *bundle.Bundle, w io.Writer, viaCW bool) (int64, error) {
	if !viaCW {
		return b.WriteTo(w)
	}
	sw := &switchWriter{w: io.Discard}
	cw := bundle.NewCountingWriter(sw)
	cw.Write([]byte("an earlier artifact written through the same counting writer"))
	sw.w = w
	return b.WriteTo(cw)
}


func bundleInst(c *core.Ctx, label string, shareParsed bool) *inst {
	var lb *gen.LBundle
	for {
		lb = gen.DrawBundle(c, 4, true)
		// (a parsed bundle with multi-key Variant-Key entries cannot be re-serialized, by design)
		if !lb.ExpectWriteError && !(shareParsed && lb.MultiKey) {
			break
		}
	}
	// at least four header fields somewhere, so that a missing sort can show
	if len(lb.Exchanges) > 0 {
		r := &lb.Exchanges[0].Resp
		for i := len(r.Headers); i < 4; i++ {
			r.Headers = append(r.Headers, gen.HV{Name: fmt.Sprintf("X-K%d", i), Value: "v"})
		}
	}
	return bundleInstOf(c, label, lb, shareParsed)
}

// sharedBuiltBundleInst: one hand-built Bundle object (not a parsed one) that the
// caller keeps and serializes again and again, possibly from several tasks. Its
// request URLs may carry what a parsed bundle never has (a fragment).
func sharedBuiltBundleInst(c *core.Ctx, label string) *inst {
	var lb *gen.LBundle
	for {
		lb = gen.DrawBundle(c, 4, true)
		if !lb.ExpectWriteError {
			break
		}
	}
	shared := lb.ToRepo()
	for _, e := range shared.Exchanges {
		if len(lb.Order[e.Request.URL.String()]) == 1 && c.Chance(label+".fragment", 1, 3) {
			e.Request.URL.Fragment = c.PickStr(label+".fragmentText", "top", "a/b", "x y")
		}
	}
	in := &inst{name: label + ":Bundle.WriteTo(shared hand-built)", writer: true}
	viaCW := c.Chance(label+".viaCallersCountingWriter", 1, 4)
	var last atomic.Int64
	in.run = func(w io.Writer) error {
		n, err := writeBundleTo(shared, w, viaCW)
		last.Store(n)
		return err
	}
	in.count = func() int64 { return last.Load() }
	in.sharedHash = func() uint64 { return hashBundle(shared) }
	frags := map[int]string{}
	for i, e := range shared.Exchanges {
		frags[i] = e.Request.URL.Fragment
	}
	in.reference = func() *inst {
		fresh := lb.ToRepo()
		for i, e := range fresh.Exchanges {
			e.Request.URL.Fragment = frags[i]
		}
		return &inst{name: in.name, writer: true, run: func(w io.Writer) error { _, err := writeBundleTo(fresh, w, viaCW); return err }}
	}
	return in
}

func bundleInstOf(c *core.Ctx, label string, lb *gen.LBundle, shareParsed bool) *inst {
	in := &inst{name: label + ":Bundle.WriteTo", writer: true}
	viaCW := c.Chance(label+".viaCallersCountingWriter", 1, 4)
	var last atomic.Int64 // several tasks may run one instance concurrently
	var shared *bundle.Bundle
	if shareParsed {
		var buf bytes.Buffer
		if _, err := lb.ToRepo().WriteTo(&buf); err == nil {
			shared, _ = bundle.Read(&buf)
		}
	}
	if shared != nil {
		in.name = label + ":Bundle.WriteTo(shared parsed)"
		in.run = func(w io.Writer) error {
			n, err := writeBundleTo(shared, w, viaCW)
			last.Store(n)
			return err
		}
		in.sharedHash = func() uint64 { return hashBundle(shared) }
		file := func() []byte { var b bytes.Buffer; lb.ToRepo().WriteTo(&b); return b.Bytes() }()
		in.reference = func() *inst {
			again, err := bundle.Read(bytes.NewReader(file))
			if err != nil {
				panic(err)
			}
			return &inst{name: in.name, writer: true, run: func(w io.Writer) error { _, err := writeBundleTo(again, w, viaCW); return err }}
		}
	} else {
		in.run = func(w io.Writer) error {
			n, err := writeBundleTo(lb.ToRepo(), w, viaCW)
			last.Store(n)
			return err
		}
	}
	in.count = func() int64 { return last.Load() }
	if shared == nil {
		in.variant = func(c *core.Ctx) *inst {
			lb2 := *lb
			lb2.Exchanges = append([]gen.LExchange(nil), lb.Exchanges...)
			for i := range lb2.Exchanges {
				lb2.Exchanges[i].Resp.Headers = shuffleHeaders(c, "variant.hdr", lb2.Exchanges[i].Resp.Headers)
			}
			v := bundleInstOf(c, label, &lb2, false)
			v.variant = nil
			return v
		}
	}
	return in
}

func hashBundle(b *bundle.Bundle) uint64 {
	h := fnv.New64a()
	fmt.Fprintf(h, "%s|%v|%v|", b.Version, b.PrimaryURL, b.ManifestURL)
	for _, e := range b.Exchanges {
		fmt.Fprintf(h, "%v|%d|", e.Request.URL, e.Response.Status)
		ks := make([]string, 0, len(e.Response.Header))
		for k := range e.Response.Header {
			ks = append(ks, k)
		}
		sort.Strings(ks)
		for _, k := range ks {
			fmt.Fprintf(h, "%s=%q|", k, e.Response.Header[k])
		}
		h.Write(e.Response.Body[:cap(e.Response.Body)])
	}
	if b.Signatures != nil {
		for _, a := range b.Signatures.Authorities {
			h.Write(a.Cert.Raw)
		}
		for _, v := range b.Signatures.VouchedSubsets {
			h.Write(v.Sig[:cap(v.Sig)])
			h.Write(v.Signed[:cap(v.Signed)])
		}
	}
	return h.Sum64()
}

func encodeHeaderInst(c *core.Ctx, label string) *inst {
	r := gen.DrawResp(c, label+".resp", 1)
	for i := len(r.Headers); i < 5; i++ {
		r.Headers = append(r.Headers, gen.HV{Name: fmt.Sprintf("X-K%d", i), Value: "v"})
	}
	return encodeHeaderOf(label, r)
}

func encodeHeaderOf(label string, r gen.LResp) *inst {
	resp := bundle.Response{Status: r.Status, Header: r.Header(), Body: r.Body}
	in := &inst{name: label + ":Response.EncodeHeader"}
	in.run = func(w io.Writer) error {
		b, err := resp.EncodeHeader()
		return writeAll(w, b, err)
	}
	in.variant = func(c *core.Ctx) *inst {
		r2 := r
		r2.Headers = shuffleHeaders(c, "variant.hdr", r.Headers)
		v := encodeHeaderOf(label, r2)
		v.variant = nil
		return v
	}
	return in
}

// ---- signed exchange -----------------------------------------------------------------

type sxgKind int

const (
	sxgWrite sxgKind = iota
	sxgDumpHeaders
	sxgDumpMessage
	sxgAddSignature
)

func sxgInst(c *core.Ctx, label string, kind sxgKind) *inst {
	l := gen.DrawSXG(c, label+".sxg", 1)
	for i := len(l.RespHeaders); i < 5; i++ {
		l.RespHeaders = append(l.RespHeaders, gen.HV{Name: fmt.Sprintf("X-K%d", i), Value: "v"})
	}
	if c.Chance(label+".bigHeader", 1, 5) {
		// one header value of kilobytes (a policy header), sorting last / first / in the middle
		l.RespHeaders = append(l.RespHeaders, gen.HV{Name: c.PickStr(label+".bigHeaderName", "Zz-Policy-Report-Only", "A-Policy", "X-K2b"), Value: strings.Repeat("default-src 'self'; ", c.PickInt(label+".bigHeaderLen", 205, 300, 3500))})
	}
	if l.Version != "1b3" {
		l.ReqHeaders = append(l.ReqHeaders, gen.HV{Name: "X-R1", Value: "1"}, gen.HV{Name: "x-r2", Value: "2"}, gen.HV{Name: "X-R3", Value: "3"})
	}
	return sxgInstOf(c, label, l, kind)
}

// sxgDatelessInst: a Signer whose Date and Expires were left at their zero value
// (a legal, if odd, input: the signed window is then the year 1). The library
// has no clock seam, so the only way to see whether an output secretly depends
// on the wall clock is to let the wall clock move: the second call of an
// instance waits (once, at most one real second) until time.Now() shows
// another second than at the first call. For code that never asks the clock
// this changes nothing; it is the one place where a run consults real time.
func sxgDatelessInst(c *core.Ctx, label string) *inst {
	l := gen.DrawSXG(c, label+".sxg", 1)
	lc := *l
	signer := lc.Signer()
	signer.Date, signer.Expires = time.Time{}, time.Time{}
	if c.Bool(label + ".onlyDateUnset") {
		signer.Expires = time.Unix(lc.Expires, 0)
	}
	in := &inst{name: label + ":AddSignatureHeader+DumpSignedMessage(Signer without Date)", seqOnly: true}
	firstSecond, waited := int64(0), false
	in.run = func(w io.Writer) error {
		if firstSecond == 0 {
			firstSecond = time.Now().Unix()
		} else if !waited {
			for time.Now().Unix() == firstSecond {
				time.Sleep(20 * time.Millisecond)
			}
			waited = true
		}
		e2 := lc.Unsigned()
		if err := e2.MiEncodePayload(lc.RS); err != nil {
			return err
		}
		if err := e2.AddSignatureHeader(signer); err != nil {
			return err
		}
		var b bytes.Buffer
		b.WriteString(e2.SignatureHeaderValue)
		if err := e2.DumpSignedMessage(&b, signer); err != nil {
			return err
		}
		_, werr := w.Write(b.Bytes())
		return werr
	}
	return in
}

func sxgInstOf(c *core.Ctx, label string, l *gen.LSXG, kind sxgKind) *inst {
	names := []string{"Exchange.Write", "Exchange.DumpExchangeHeaders", "Exchange.DumpSignedMessage", "Exchange.AddSignatureHeader"}
	in := &inst{name: label + ":" + names[kind], writer: kind != sxgAddSignature}
	lc := *l
	e, err := lc.Sign() // shared, signed, read-only from here on
	if err != nil {
		panic(err)
	}
	// shared certificates and key for signers created per call
	certs := []*x509.Certificate{l.Leaf.Cert(), l.Leaf.Issuer()}
	// One Signer object shared by all calls and tasks. Its Algorithm is already
	// set (no lazy initialisation), so DumpSignedMessage and AddSignatureHeader
	// only read it.
	sharedSigner := lc.Signer()
	sharedSigner.Certs = certs
	newSigner := func() *signedexchange.Signer { return sharedSigner }
	switch kind {
	case sxgWrite:
		in.run = func(w io.Writer) error { return e.Write(w) }
	case sxgDumpHeaders:
		in.run = func(w io.Writer) error { return e.DumpExchangeHeaders(w) }
	case sxgDumpMessage:
		in.run = func(w io.Writer) error { return e.DumpSignedMessage(w, newSigner()) }
	case sxgAddSignature:
		in.run = func(w io.Writer) error {
			// own exchange object (AddSignatureHeader writes to it), shared certificates and key
			e2 := lc.Unsigned()
			if err := e2.MiEncodePayload(lc.RS); err != nil {
				return err
			}
			if err := e2.AddSignatureHeader(newSigner()); err != nil {
				return err
			}
			_, werr := w.Write([]byte(e2.SignatureHeaderValue))
			return werr
		}
	}
	in.sharedHash = func() uint64 {
		rq, _ := gen.CanonHeader(e.RequestHeaders)
		rs, _ := gen.CanonHeader(e.ResponseHeaders)
		var parts [][]byte
		for _, k := range core.SortedKeys(rq) {
			parts = append(parts, []byte(k+"="+rq[k]))
		}
		for _, k := range core.SortedKeys(rs) {
			parts = append(parts, []byte(k+"="+rs[k]))
		}
		parts = append(parts, []byte(e.SignatureHeaderValue), e.Payload[:cap(e.Payload)], certs[0].Raw, certs[1].Raw, l.Leaf.Key.D.Bytes())
		return fnvOf(parts...)
	}
	in.variant = func(c *core.Ctx) *inst {
		l2 := *l
		l2.RespHeaders = shuffleHeaders(c, "variant.resp", l.RespHeaders)
		l2.ReqHeaders = shuffleHeaders(c, "variant.req", l.ReqHeaders)
		v := sxgInstOf(c, label, &l2, kind)
		v.variant = nil
		return v
	}
	return in
}

// collidingInst: header maps filled directly with two names that differ only
// in letter case. Whatever the serializer does with them (refuse, or encode),
// it must do the same on every call.
func collidingInst(c *core.Ctx, label string) *inst {
	l := gen.DrawSXG(c, label+".sxg", 1)
	name := c.PickStr(label+".name", "Link", "X-Foo", "Vary")
	v1, v2 := "<a>; rel=x", "<b>; rel=y"
	useBundle := c.Bool(label + ".bundle")
	in := &inst{name: label + ":case-colliding header names"}
	if useBundle {
		in.run = func(w io.Writer) error {
			h := l.Unsigned().ResponseHeaders
			h[name] = []string{v1}
			h[lower(name)] = []string{v2}
			h["X-Third"] = []string{"3"}
			b, err := bundle.Response{Status: 200, Header: h}.EncodeHeader()
			return writeAll(w, b, err)
		}
		return in
	}
	in.run = func(w io.Writer) error {
		e := l.Unsigned()
		e.ResponseHeaders[name] = []string{v1}
		e.ResponseHeaders[lower(name)] = []string{v2}
		e.ResponseHeaders["X-Third"] = []string{"3"}
		return e.DumpExchangeHeaders(w)
	}
	return in
}

// renewalInst: one Signer object reused across calls while its exported
// fields are changed in between (certificate renewal): the output for a given
// set of field values must not depend on what the Signer was used for before.
func renewalInst(c *core.Ctx, label string) *inst {
	l := gen.DrawSXG(c, label+".sxg", 1)
	lc := *l
	e, err := lc.Sign()
	if err != nil {
		panic(err)
	}
	var other *fixtures.Leaf
	for {
		other = fixtures.Leaves[c.Pick(label+".other", len(fixtures.Leaves))]
		if other != l.Leaf {
			break
		}
	}
	mine := []*x509.Certificate{l.Leaf.Cert(), l.Leaf.Issuer()}
	theirs := []*x509.Certificate{other.Cert()}
	s := lc.Signer()
	first := c.Bool(label + ".otherFirst")
	in := &inst{name: label + ":DumpSignedMessage(reused Signer)", seqOnly: true}
	in.run = func(w io.Writer) error {
		if first {
			s.Certs = theirs
			if err := e.DumpSignedMessage(io.Discard, s); err != nil {
				return err
			}
		}
		s.Certs = mine
		if err := e.DumpSignedMessage(w, s); err != nil {
			return err
		}
		s.Certs = theirs
		return e.DumpSignedMessage(io.Discard, s)
	}
	in.variant = func(c *core.Ctx) *inst {
		fresh := lc.Signer()
		fresh.Certs = mine
		return &inst{name: in.name, seqOnly: true, run: func(w io.Writer) error { return e.DumpSignedMessage(w, fresh) }}
	}
	return in
}

// twoSignersInst: a signatures section produced by two signers whose chains have
// the same intermediate; in this instance both chains hold the SAME certificate
// objects for it, in its variant each chain holds its own freshly parsed copy:
// the serialized section is the same either way.
func twoSignersInst(c *core.Ctx, label string) *inst {
	pool := []string{"a-p256", "b-p384", "c-p256", "d-p384"} // leaves issued by the same CA
	perm := c.Perm(label+".leaves", len(pool))
	l1, l2 := fixtures.ByName(pool[perm[0]]), fixtures.ByName(pool[perm[1]])
	date := c.I64(label+".date", 1600000000, 1700000000)
	ent := [2]byte{byte(c.Int(label+".e1", 0, 255)), byte(c.Int(label+".e2", 0, 255))}
	build := func(shared bool) *inst {
		in := &inst{name: label + ":UpdateSignatures(two signers, common intermediate)", seqOnly: true}
		in.run = func(w io.Writer) error {
			ca := l1.Issuer()
			var sigs *bundle.Signatures
			for i, leaf := range []*fixtures.Leaf{l1, l2} {
				inter := ca
				if !shared {
					inter = leaf.Issuer()
				}
				chain, err := certurl.NewCertChain([]*x509.Certificate{leaf.Cert(), inter}, []byte("ocsp"), nil)
				if err != nil {
					return err
				}
				if shared && i == 1 && sigs != nil && len(sigs.Authorities) > 1 {
					chain[1] = sigs.Authorities[1] // the very same augmented-certificate object
				}
				host := leaf.Hosts[0]
				if host[0] == '*' {
					host = "sub" + host[1:]
				}
				vu, _ := url.Parse("https://" + host + "/validity")
				signer, err := signature.NewSigner(bversion.Version("b2"), chain, leaf.Key, vu, time.Unix(date, 0), time.Hour)
				if err != nil {
					return err
				}
				signer.Algorithm, _ = verifhook.SigningAlgorithmForPrivateKey(leaf.Key, fixtures.ConstReader{B: ent[i]})
				u, _ := url.Parse("https://" + host + "/r")
				e := &bundle.Exchange{Request: bundle.Request{URL: u}, Response: bundle.Response{Status: 200, Header: http.Header{"Content-Type": {"text/plain"}}, Body: []byte("resource of " + host)}}
				pih, err := e.AddPayloadIntegrity(bversion.Version("b2"), 16)
				if err != nil {
					return err
				}
				if err := signer.AddExchange(e, pih); err != nil {
					return err
				}
				if sigs, err = signer.UpdateSignatures(sigs); err != nil {
					return err
				}
			}
			b := &bundle.Bundle{Version: bversion.Version("b2"), Signatures: sigs}
			_, err := b.WriteTo(w)
			return err
		}
		return in
	}
	in := build(true)
	in.variant = func(*core.Ctx) *inst { return build(false) }
	return in
}

// ---- bundle signed subset ---------------------------------------------------------------

type subsetEntry struct {
	url  string
	hash []byte
}

func signedSubsetInst(c *core.Ctx, label string) *inst {
	n := c.Int(label+".n", 4, 7)
	var es []subsetEntry
	for i := 0; i < n; i++ {
		h := sha256.Sum256([]byte(fmt.Sprintf("hdr%d", i)))
		es = append(es, subsetEntry{gen.DrawURL(c, label+".url", i, false, ""), h[:]})
	}
	leaf := fixtures.Leaves[c.Pick(label+".leaf", len(fixtures.Leaves))]
	date := c.I64(label+".date", 1600000000, 1700000000)
	return signedSubsetOf(c, label, es, leaf, date, nil)
}

func signedSubsetOf(c *core.Ctx, label string, es []subsetEntry, leaf *fixtures.Leaf, date int64, order []int) *inst {
	vu, _ := url.Parse("https://" + leaf.Hosts[0] + "/validity")
	ss := &signature.SignedSubset{ValidityUrl: vu, AuthSha256: leaf.Sha256(), Date: time.Unix(date, 0), Expires: time.Unix(date+3600, 0), SubsetHashes: map[string]*signature.ResponseHashes{}}
	if order == nil {
		order = make([]int, len(es))
		for i := range order {
			order[i] = i
		}
	} else {
		for i := 0; i < 24; i++ { // insert/delete noise: different bucket layout
			ss.SubsetHashes[fmt.Sprintf("noise-%d", i)] = nil
		}
		for i := 0; i < 24; i++ {
			delete(ss.SubsetHashes, fmt.Sprintf("noise-%d", i))
		}
	}
	for _, i := range order {
		ss.SubsetHashes[es[i].url] = &signature.ResponseHashes{Hashes: []*signature.ResourceIntegrity{{HeaderSha256: es[i].hash, PayloadIntegrityHeader: "digest/mi-sha256-03"}}}
	}
	in := &inst{name: label + ":SignedSubset.Encode"}
	in.run = func(w io.Writer) error {
		b, err := ss.Encode()
		return writeAll(w, b, err)
	}
	in.variant = func(c *core.Ctx) *inst {
		v := signedSubsetOf(c, label, es, leaf, date, c.Perm("variant.order", len(es)))
		v.variant = nil
		return v
	}
	return in
}

// ---- cert chain -----------------------------------------------------------------------------

func certChainInst(c *core.Ctx, label string) *inst {
	n := c.Int(label+".n", 1, 3)
	perm := c.Perm(label+".perm", len(fixtures.Leaves))
	var certs []*x509.Certificate
	for i := 0; i < n; i++ {
		certs = append(certs, fixtures.Leaves[perm[i]].Cert())
	}
	certs = append(certs, fixtures.Leaves[perm[n-1]].Issuer())
	ocsp := c.Bytes(label+".ocsp", 1, 300)
	if c.Chance(label+".bigOcsp", 1, 5) {
		ocsp = c.BytesN(label+".ocspBig", c.PickInt(label+".ocspBigLen", 4095, 4096, 5000, 70000)) // a real OCSP response is kilobytes
	}
	var sct []byte
	if c.Bool(label + ".hasSct") {
		sct = c.Bytes(label+".sct", 1, 100)
	}
	chain, err := certurl.NewCertChain(certs, ocsp, sct) // shared
	if err != nil {
		panic(err)
	}
	in := &inst{name: label + ":CertChain.Write", writer: true}
	in.run = func(w io.Writer) error { return chain.Write(w) }
	in.sharedHash = func() uint64 {
		var parts [][]byte
		for _, a := range chain {
			parts = append(parts, a.Cert.Raw, a.OCSPResponse, a.SCTList)
		}
		return fnvOf(parts...)
	}
	in.variant = func(c *core.Ctx) *inst {
		var cs []*x509.Certificate
		for _, x := range certs {
			y, _ := x509.ParseCertificate(x.Raw)
			cs = append(cs, y)
		}
		ch2, _ := certurl.NewCertChain(cs, append([]byte(nil), ocsp...), append([]byte(nil), sct...))
		if sct == nil {
			ch2[0].SCTList = nil
		}
		return &inst{name: in.name, writer: true, run: func(w io.Writer) error { return ch2.Write(w) }}
	}
	return in
}

// certSiblingInst: two chains built from the SAME certificate objects that
// differ only in the SCT list of a later element are serialized alternately;
// the output for one must not depend on the other having been serialized with
// the same objects (variant: the same chain from freshly parsed certificates).
func certSiblingInst(c *core.Ctx, label string) *inst {
	leaf := fixtures.Leaves[c.Pick(label+".leaf", len(fixtures.Leaves))]
	certs := []*x509.Certificate{leaf.Cert(), leaf.Issuer()}
	ocsp := c.Bytes(label+".ocsp", 1, 60)
	sctA, sctB := []byte(nil), c.Bytes(label+".sctB", 1, 40)
	if c.Bool(label + ".aHasSct") {
		sctA = c.Bytes(label+".sctA", 1, 40)
	}
	mk := func(cs []*x509.Certificate, sct []byte) certurl.CertChain {
		ch, _ := certurl.NewCertChain(cs, append([]byte(nil), ocsp...), nil)
		ch[1].SCTList = sct
		return ch
	}
	a, b := mk(certs, sctA), mk(certs, sctB)
	bFirst := c.Bool(label + ".siblingFirst")
	in := &inst{name: label + ":CertChain.Write(sibling chain shares certificates)", seqOnly: true}
	in.run = func(w io.Writer) error {
		if bFirst {
			if err := b.Write(io.Discard); err != nil {
				return err
			}
		}
		if err := a.Write(w); err != nil {
			return err
		}
		return b.Write(io.Discard)
	}
	in.variant = func(c *core.Ctx) *inst {
		var cs []*x509.Certificate
		for _, x := range certs {
			y, _ := x509.ParseCertificate(x.Raw)
			cs = append(cs, y)
		}
		fresh := mk(cs, sctA)
		return &inst{name: in.name, seqOnly: true, run: func(w io.Writer) error { return fresh.Write(w) }}
	}
	return in
}

// ---- integrity block -------------------------------------------------------------------------

type ibKind int

const (
	ibCborBytes ibKind = iota
	ibDataToBeSigned
	ibBundleID
)

type attrKV struct {
	k string
	v []byte
}

func ibInst(c *core.Ctx, label string, kind ibKind) *inst {
	nsig := c.Int(label+".nsig", 1, 3)
	var stacks [][]attrKV
	var sigs [][]byte
	for i := 0; i < nsig; i++ {
		pub, _ := fixtures.Ed25519Key(c.Int(label+".key", 0, 7))
		kvs := []attrKV{{integrityblock.Ed25519publicKeyAttributeName, []byte(pub)}}
		for j := 0; j < 4; j++ {
			kvs = append(kvs, attrKV{[]string{"a", "zz", "e", "alongerattributenamethatisover23bytes", "k1"}[j], c.Bytes(label+".attr", 0, 20)})
		}
		stacks = append(stacks, kvs)
		sigs = append(sigs, c.BytesN(label+".sig", 64))
	}
	hash := c.BytesN(label+".hash", 64)
	return ibInstOf(c, label, kind, stacks, sigs, hash, false)
}

func ibInstOf(c *core.Ctx, label string, kind ibKind, stacks [][]attrKV, sigs [][]byte, hash []byte, permute bool) *inst {
	mk := func(kvs []attrKV) integrityblock.SignatureAttributesMap {
		m := integrityblock.SignatureAttributesMap{}
		order := make([]int, len(kvs))
		for i := range order {
			order[i] = i
		}
		if permute {
			for i := 0; i < 20; i++ {
				m[fmt.Sprintf("noise%d", i)] = nil
			}
			for i := 0; i < 20; i++ {
				delete(m, fmt.Sprintf("noise%d", i))
			}
			order = c.Perm("variant.attrs", len(kvs))
		}
		for _, i := range order {
			m[kvs[i].k] = kvs[i].v
		}
		return m
	}
	// the version constants and magic are the package-level slices, as users obtain them
	blk := &integrityblock.IntegrityBlock{Magic: integrityblock.IntegrityBlockMagic, Version: integrityblock.VersionB1}
	for i := range stacks {
		blk.SignatureStack = append(blk.SignatureStack, &integrityblock.IntegritySignature{SignatureAttributes: mk(stacks[i]), Signature: sigs[i]})
	}
	attrs0 := mk(stacks[0])
	// a public key as users obtain it: derived from a private key
	_, priv := fixtures.Ed25519Key(int(hash[0]) % 8)
	pub := priv.Public().(ed25519.PublicKey)
	names := []string{"IntegrityBlock.CborBytes", "GenerateDataToBeSigned", "GetWebBundleId"}
	in := &inst{name: label + ":" + names[kind]}
	switch kind {
	case ibCborBytes:
		in.run = func(w io.Writer) error {
			b, err := blk.CborBytes()
			return writeAll(w, b, err)
		}
	case ibDataToBeSigned:
		in.run = func(w io.Writer) error {
			bb, err := blk.CborBytes()
			if err != nil {
				return err
			}
			b, err := integrityblock.GenerateDataToBeSigned(hash, bb, attrs0)
			return writeAll(w, b, err)
		}
	case ibBundleID:
		in.run = func(w io.Writer) error {
			_, err := w.Write([]byte(webbundleid.GetWebBundleId(pub)))
			return err
		}
	}
	in.sharedHash = func() uint64 {
		m := integrityblock.IntegrityBlockMagic
		v := integrityblock.VersionB1
		return fnvOf(m[:cap(m)], v[:cap(v)], pub[:cap(pub)], hash)
	}
	if kind != ibBundleID {
		in.variant = func(c *core.Ctx) *inst {
			v := ibInstOf(c, label, kind, stacks, sigs, hash, true)
			v.variant = nil
			return v
		}
	}
	return in
}

// ibForkInst: a block with several signatures is kept by the caller (a struct
// copy: same signature stack) while other copies of it are counter-signed, one
// per call; the kept copy must serialize to the same bytes every time.
func ibForkInst(c *core.Ctx, label string) *inst {
	base := &integrityblock.IntegrityBlock{Magic: integrityblock.IntegrityBlockMagic, Version: integrityblock.VersionB1}
	hash := c.BytesN(label+".hash", 64)
	nsig := c.Int(label+".nsig", 1, 8)
	for i := 0; i < nsig; i++ { // built the way the library builds it: one signing after the other
		pub, priv := fixtures.Ed25519Key(i % 8)
		ibs := &integrityblock.IntegrityBlockSigner{WebBundleHash: hash, IntegrityBlock: base, SigningStrategy: integrityblock.NewParsedEd25519KeySigningStrategy(priv)}
		if err := ibs.SignAndAddNewSignature(pub, integrityblock.SignatureAttributesMap{integrityblock.Ed25519publicKeyAttributeName: []byte(pub)}); err != nil {
			panic(err)
		}
	}
	kept := *base
	cpub, cpriv := fixtures.Ed25519Key(c.Int(label+".counterKey", 8, 15))
	in := &inst{name: label + ":IntegrityBlock.CborBytes(kept copy while forks are counter-signed)"}
	in.run = func(w io.Writer) error {
		fork := *base
		ibs := &integrityblock.IntegrityBlockSigner{WebBundleHash: hash, IntegrityBlock: &fork, SigningStrategy: integrityblock.NewParsedEd25519KeySigningStrategy(cpriv)}
		if err := ibs.SignAndAddNewSignature(cpub, integrityblock.SignatureAttributesMap{integrityblock.Ed25519publicKeyAttributeName: []byte(cpub)}); err != nil {
			return err
		}
		b, err := kept.CborBytes()
		return writeAll(w, b, err)
	}
	in.sharedHash = func() uint64 {
		b, _ := kept.CborBytes()
		return fnvOf(b)
	}
	return in
}

// ---- structured headers ------------------------------------------------------------------------

type paramKV struct {
	k string
	v structuredheader.Item
}

func shInst(c *core.Ctx, label string) *inst {
	nid := c.Int(label+".nid", 1, 3)
	var ids [][]paramKV
	for i := 0; i < nid; i++ {
		n := c.Int(label+".nparams", 4, 7)
		keys := []string{"sig", "integrity", "cert-url", "cert-sha256", "validity-url", "date", "expires", "a", "zz"}
		perm := c.Perm(label+".keys", len(keys))
		var kvs []paramKV
		for j := 0; j < n; j++ {
			var v structuredheader.Item
			switch c.Pick(label+".vkind", 4) {
			case 0:
				v = c.I64(label+".int", -1000, 1<<40)
			case 1:
				v = "str\"ing\\" + fmt.Sprint(j)
			case 2:
				v = structuredheader.Token("tok" + fmt.Sprint(j))
			default:
				v = c.Bytes(label+".bytes", 0, 40)
			}
			kvs = append(kvs, paramKV{keys[perm[j]], v})
		}
		ids = append(ids, kvs)
	}
	return shInstOf(c, label, ids, false)
}

func shInstOf(c *core.Ctx, label string, ids [][]paramKV, permute bool) *inst {
	var pl structuredheader.ParameterisedList
	for i, kvs := range ids {
		p := structuredheader.Parameters{}
		order := make([]int, len(kvs))
		for j := range order {
			order[j] = j
		}
		if permute {
			for j := 0; j < 20; j++ {
				p[structuredheader.Key(fmt.Sprintf("noise%d", j))] = nil
			}
			for j := 0; j < 20; j++ {
				delete(p, structuredheader.Key(fmt.Sprintf("noise%d", j)))
			}
			order = c.Perm("variant.params", len(kvs))
		}
		for _, j := range order {
			p[structuredheader.Key(kvs[j].k)] = kvs[j].v
		}
		pl = append(pl, structuredheader.ParameterisedIdentifier{Label: structuredheader.Token(fmt.Sprintf("label%d", i)), Params: p})
	}
	in := &inst{name: label + ":ParameterisedList.String"}
	in.run = func(w io.Writer) error {
		s, err := pl.String()
		return writeAll(w, []byte(s), err)
	}
	if !permute {
		in.variant = func(c *core.Ctx) *inst { return shInstOf(c, label, ids, true) }
	}
	return in
}

// ---- MI encoder -------------------------------------------------------------------------------------

func miceInst(c *core.Ctx, label string) *inst {
	enc := mice.Draft03Encoding
	if c.Bool(label + ".draft02") {
		enc = mice.Draft02Encoding
	}
	rs := c.PickInt(label+".rs", 1, 3, 16, 100, 4096)
	payload := c.Bytes(label+".payload", 0, 400) // shared, read-only
	if c.Chance(label+".large", 1, 6) {
		payload = c.BytesN(label+".payload", c.PickInt(label+".largeLen", 65535, 65536, 70000, 100000, 140000))
		rs = c.PickInt(label+".largeRS", 4096, 16384, 100)
		if c.Chance(label+".megabytes", 1, 4) {
			// (payloads of a megabyte and more: where an encoder might go about its work differently)
			payload = c.BytesN(label+".payload", c.PickInt(label+".megaLen", 1<<20, 1<<20+4097, 3<<20))
			rs = c.PickInt(label+".megaRS", 4096, 16384)
			c.Probe("MI encoder: payload of a megabyte or more")
		}
	}
	// the payload is one resource inside a larger shared buffer (its neighbours follow
	// it in the same backing array): nothing outside or inside it may be written
	whole := payload
	if from := c.Int(label+".sub.from", 0, len(whole)); c.Bool(label + ".sub") {
		payload = whole[from:c.Int(label+".sub.to", from, len(whole))]
	}
	in := &inst{name: label + ":mice.Encode", writer: true}
	in.run = func(w io.Writer) error {
		_, err := enc.Encode(w, payload, rs)
		return err
	}
	in.sharedHash = func() uint64 { return fnvOf(whole[:cap(whole)]) }
	in.variant = func(c *core.Ctx) *inst {
		p2 := append([]byte(nil), payload...)
		return &inst{name: in.name, writer: true, run: func(w io.Writer) error { _, err := enc.Encode(w, p2, rs); return err }}
	}
	return in
}

// miceDigestInst serializes the digest header value (the string result).
func miceDigestInst(c *core.Ctx, label string) *inst {
	enc := mice.Draft03Encoding
	if c.Bool(label + ".draft02") {
		enc = mice.Draft02Encoding
	}
	rs := c.PickInt(label+".rs", 1, 3, 16, 100, 4096)
	payload := c.Bytes(label+".payload", 0, 400)
	if c.Chance(label+".megabytes", 1, 12) {
		payload = c.BytesN(label+".payload", c.PickInt(label+".megaLen", 1<<20, 1<<20+4097, 3<<20))
		rs = c.PickInt(label+".megaRS", 4096, 16384)
		c.Probe("MI encoder: payload of a megabyte or more")
	}
	in := &inst{name: label + ":mice.Encode(digest)"}
	in.run = func(w io.Writer) error {
		d, err := enc.Encode(io.Discard, payload, rs)
		return writeAll(w, []byte(d), err)
	}
	return in
}

// ---- version constants ----------------------------------------------------------------------------------

func magicInst(c *core.Ctx, label string) *inst {
	bv := bversion.Version(c.PickStr(label+".bv", "b1", "b2"))
	sv := sxgversion.Version(c.PickStr(label+".sv", "1b1", "1b2", "1b3"))
	in := &inst{name: label + ":HeaderMagicBytes"}
	in.run = func(w io.Writer) error {
		b := bv.HeaderMagicBytes()
		s := sv.HeaderMagicBytes()
		// a caller is free to append to what it was handed
		b = append(b, 0xAA)
		s = append(s, 0xBB)
		_, err := w.Write(append(b, s...))
		return err
	}
	in.sharedHash = func() uint64 {
		a, b2, c2, d := bversion.HeaderMagicBytesB1, bversion.HeaderMagicBytesB2, bversion.VersionMagicBytesB1, bversion.VersionMagicBytesB2
		return fnvOf(a[:cap(a)], b2[:cap(b2)], c2[:cap(c2)], d[:cap(d)])
	}
	return in
}

// ---- CBOR encoder call sequence ------------------------------------------------------------------------

type cborOp struct {
	kind int
	u    uint64
	i    int64
	b    []byte
	kvs  [][2][]byte // map entries: key bytes -> value bytes (byte strings)
}

func cborSeqInst(c *core.Ctx, label string) *inst {
	n := c.Int(label+".n", 1, 6)
	var ops []cborOp
	for i := 0; i < n; i++ {
		op := cborOp{kind: c.Pick(label+".kind", 7)}
		switch op.kind {
		case 0:
			op.u = c.PickU64(label+".u", 0, 23, 24, 255, 256, 65535, 65536, 1<<32-1, 1<<32, ^uint64(0))
		case 1:
			op.i = c.PickI64(label+".i", -1, -24, -25, -256, -257, -1<<31, -1<<62, 5)
		case 2, 3:
			op.b = c.Bytes(label+".b", 0, 300)
			if op.kind == 3 {
				for j := range op.b {
					op.b[j] = 0x20 + op.b[j]%0x5f
				}
			}
		case 4:
			op.u = uint64(c.PickInt(label+".arr", 0, 1, 23, 24, 256, 65536))
		case 5:
			op.u = uint64(c.Pick(label+".bool", 2))
		case 6:
			k := c.Int(label+".mapn", 0, 6)
			for j := 0; j < k; j++ {
				key := append([]byte(fmt.Sprintf("k%02d", j)), c.Bytes(label+".kpad", 0, 30)...)
				op.kvs = append(op.kvs, [2][]byte{key, c.Bytes(label+".mv", 0, 40)})
			}
		}
		ops = append(ops, op)
	}
	return cborSeqOf(c, label, ops, false)
}

func cborSeqOf(c *core.Ctx, label string, ops []cborOp, permute bool) *inst {
	in := &inst{name: label + ":cbor.Encoder sequence", writer: true}
	perms := map[int][]int{}
	if permute {
		for i, op := range ops {
			if op.kind == 6 {
				perms[i] = c.Perm("variant.map", len(op.kvs))
			}
		}
	}
	in.run = func(w io.Writer) error {
		e := verifhook.NewCborEncoder(w)
		sw := core.Unwrap(w)
		for i, op := range ops {
			var err error
			switch op.kind {
			case 0:
				err = e.EncodeUint(op.u)
			case 1:
				err = e.EncodeInt(op.i)
			case 2:
				err = e.EncodeByteString(op.b)
			case 3:
				err = e.EncodeTextString(string(op.b))
			case 4:
				err = e.EncodeArrayHeader(int(op.u))
			case 5:
				err = e.EncodeBool(op.u == 1)
			case 6:
				order := perms[i]
				if order == nil {
					order = make([]int, len(op.kvs))
					for j := range order {
						order[j] = j
					}
				}
				var mes []*verifhook.CborMapEntryEncoder
				for _, j := range order {
					kv := op.kvs[j]
					mes = append(mes, verifhook.GenerateCborMapEntry(func(ke, ve *verifhook.CborEncoder) {
						ke.EncodeByteString(kv[0])
						ve.EncodeByteString(kv[1])
					}))
				}
				err = e.EncodeMap(mes)
			}
			if err != nil {
				return err
			}
			if sw != nil && (sw.Failed || sw.FailedOnce) {
				// the device failed during this call and the call reported success
				return errSwallowed{op: i, kind: op.kind}
			}
		}
		return nil
	}
	if !permute {
		in.variant = func(c *core.Ctx) *inst { return cborSeqOf(c, label, ops, true) }
	}
	return in
}

type errSwallowed struct{ op, kind int }

func (e errSwallowed) Error() string {
	return fmt.Sprintf("encoder call #%d (kind %d) returned nil although the device failed during it", e.op, e.kind)
}

var instMakers = []func(c *core.Ctx) *inst{
	func(c *core.Ctx) *inst { return bundleInst(c, "bundle", false) },
	func(c *core.Ctx) *inst { return bundleInst(c, "pbundle", true) },
	func(c *core.Ctx) *inst { return sharedBuiltBundleInst(c, "sbundle") },
	func(c *core.Ctx) *inst { return encodeHeaderInst(c, "ehdr") },
	func(c *core.Ctx) *inst { return sxgInst(c, "sxgw", sxgWrite) },
	func(c *core.Ctx) *inst { return sxgInst(c, "sxgh", sxgDumpHeaders) },
	func(c *core.Ctx) *inst { return sxgInst(c, "sxgm", sxgDumpMessage) },
	func(c *core.Ctx) *inst { return sxgInst(c, "sxgs", sxgAddSignature) },
	func(c *core.Ctx) *inst {
		if c.Chance("sxgz.pick", 1, 4) { // (costs up to one real second: kept rare)
			return sxgDatelessInst(c, "sxgz")
		}
		return sxgInst(c, "sxgs", sxgAddSignature)
	},
	func(c *core.Ctx) *inst { return signedSubsetInst(c, "subset") },
	func(c *core.Ctx) *inst { return twoSignersInst(c, "twosig") },
	func(c *core.Ctx) *inst { return certChainInst(c, "chain") },
	func(c *core.Ctx) *inst { return ibInst(c, "ibc", ibCborBytes) },
	func(c *core.Ctx) *inst { return ibInst(c, "ibd", ibDataToBeSigned) },
	func(c *core.Ctx) *inst { return ibInst(c, "ibi", ibBundleID) },
	func(c *core.Ctx) *inst { return ibForkInst(c, "ibf") },
	func(c *core.Ctx) *inst { return shInst(c, "sh") },
	func(c *core.Ctx) *inst { return miceInst(c, "mice") },
	func(c *core.Ctx) *inst { return miceDigestInst(c, "miced") },
	func(c *core.Ctx) *inst { return magicInst(c, "magic") },
	func(c *core.Ctx) *inst { return cborSeqInst(c, "cbor") },
	func(c *core.Ctx) *inst { return collidingInst(c, "collide") },
	func(c *core.Ctx) *inst { return renewalInst(c, "renew") },
	func(c *core.Ctx) *inst { return certSiblingInst(c, "sibling") },
}
