package serial

import (
	"bytes"
	"fmt"
	"io"
	"os"
	"runtime"
	"sync"
	"sync/atomic"
	"testing"
	"time"

	"github.com/WICG/webpackage/go/verifyield"
	"pgregory.net/rapid"
	"verifsim/core"
)

func TestMain(m *testing.M) { core.Main(m) }

func runInto(c *core.Ctx, in *inst, plan core.WriterPlan) (*core.SimWriter, error, *core.PanicInfo) {
	w := c.NewWriter("dst", plan)
	var err error
	pi := c.Guard(in.name, func() { err = in.run(w) })
	return core.Unwrap(w), err, pi
}

// purity: the history / schedule clauses are judged under C18 for serializers and
// under the reader's own property for the reader instances (readers.go).
func purity(c *core.Ctx) bool {
	if readerMakers[core.ActiveProp()] != nil {
		return true
	}
	return c.Oracle("C18")
}

func pickInst(c *core.Ctx, onlyWriters bool) *inst { return pickInstFor(c, onlyWriters, true) }

func pickInstFor(c *core.Ctx, onlyWriters, allowSeqOnly bool) *inst {
	if rm := readerMakers[core.ActiveProp()]; rm != nil && !onlyWriters {
		// under a reader's property the instances are that reader's
		return rm[c.Pick("reader", len(rm))](c)
	}
	for {
		in := instMakers[c.Pick("serializer", len(instMakers))](c)
		if (!onlyWriters || in.writer) && (allowSeqOnly || !in.seqOnly) {
			return in
		}
	}
}

// outcome of one call: the bytes and whether an error was returned. A
// serializer may refuse an input, but then it must refuse it on every call.
type outcome struct {
	out    []byte
	failed bool
}

// (what a refused call had already written to its destination before failing
// is not output in the property's sense and is not compared)
func (o outcome) same(p outcome) bool {
	if o.failed || p.failed {
		return o.failed == p.failed
	}
	return bytes.Equal(o.out, p.out)
}

// ---- C19: a device failure at every byte position -------------------------------------

var sentinelErrs = []error{io.EOF, io.ErrUnexpectedEOF, io.ErrShortWrite, io.ErrClosedPipe, io.ErrNoProgress}

func TestWriteFault(t *testing.T) {
	rapid.Check(t, func(t *rapid.T) {
		core.Run(t, "serial/write-fault", func(c *core.Ctx) {
			in := pickInst(c, true)
			ok, err, pi := runInto(c, in, core.WriterPlan{FailAt: -1})
			if pi != nil {
				c.CheckTotal(in.name, 0, pi, 0)
			}
			if err != nil {
				c.Outcome("skipped-refused-input")
				return
			}
			full := ok.Accepted
			limit := 4096
			if core.Tier() == "thorough" {
				limit = 65536
			}
			var ks []int
			if len(full) > limit {
				// too large to enumerate: sample failure positions, biased to both ends
				// and to the write-call boundaries of the fault-free run
				for i := 0; i < 48; i++ {
					switch c.Pick("k.class", 4) {
					case 0:
						ks = append(ks, c.Int("k.head", 0, 64))
					case 1:
						ks = append(ks, len(full)-1-c.Int("k.tail", 0, 40000))
					case 2:
						if len(ok.Bounds) > 0 {
							ks = append(ks, ok.Bounds[c.Pick("k.bound", len(ok.Bounds))]+c.PickInt("k.boundDelta", -1, 0, 1))
						}
					default:
						ks = append(ks, c.Int("k.any", 0, len(full)-1))
					}
				}
				c.Probe("large artifact: failure positions sampled")
			} else {
				for k := 0; k <= len(full); k++ {
					ks = append(ks, k)
				}
			}
			rf := c.Bool("dst.readerFrom")
			c.Event("%s: %d bytes, every failure position, readerFrom=%v", in.name, len(full), rf)
			for _, k := range ks {
				if k < 0 || k > len(full) {
					continue
				}
				for mode := 0; mode < 7; mode++ {
					if mode == 6 {
						// a healthy device that takes at most k bytes per call and says so with
						// (k, io.ErrShortWrite): the serializer may fail or resume, but success means
						// the complete output
						if k == 0 || k >= len(full) {
							continue
						}
						sw, err, pi := runInto(c, in, core.WriterPlan{FailAt: -1, Chunk: k, ReaderFrom: rf})
						if pi != nil {
							c.CheckTotal(in.name, 0, pi, 0)
						}
						if c.Oracle("C19") && sw.Chunked > 0 && err == nil && !bytes.Equal(sw.Accepted, full) {
							c.Violation("partial-output-reported-as-success", in.name, "a device taking %d bytes per call holds %d of %d bytes (or other bytes): serializer returned nil", k, len(sw.Accepted), len(full))
						}
						if c.Oracle("C19") && err != nil && sw.CallsAfterChunk == 0 && !bytes.HasPrefix(full, sw.Accepted) {
							c.Violation("not-a-prefix", in.name, "bytes accepted by a device taking %d bytes per call are not a prefix of the fault-free output", k)
						}
						continue
					}
					// (mode 4: part of the data is taken, the error says "temporary", the device recovers)
					short, transient := mode == 1 || mode == 4, mode == 2 || mode == 4
					if transient && k == len(full) {
						continue
					}
					if mode == 5 {
						// a fixed-size destination: a write that does not fit is refused whole, a later
						// smaller one may still fit. The error is demanded, and that what was taken is a
						// prefix (a serializer that goes on writing after a refusal leaves a hole).
						if k == len(full) {
							continue
						}
						sw, err, pi := runInto(c, in, core.WriterPlan{FailAt: k, Capacity: true, ReaderFrom: rf})
						if pi != nil {
							c.CheckTotal(in.name, 0, pi, 0)
						}
						if c.Oracle("C19") {
							if sw.Refused > 0 && err == nil {
								c.Violation("write-failure-swallowed", in.name, "a destination with room for %d of %d bytes refused %d write(s): serializer returned nil", k, len(full), sw.Refused)
							}
							if !bytes.HasPrefix(full, sw.Accepted) {
								c.Violation("not-a-prefix", in.name, "a destination with room for %d bytes holds %d bytes that are not a prefix of the fault-free output (writing went on after a refused write)", k, len(sw.Accepted))
							}
						}
						continue
					}
					var errValue error
					if mode == 3 {
						// the device's error is a value that means "end of input" or the like elsewhere
						errValue = sentinelErrs[(k+len(full))%len(sentinelErrs)]
						short = k%2 == 1
					}
					sw, err, pi := runInto(c, in, core.WriterPlan{FailAt: k, Short: short, ReaderFrom: rf, Transient: transient, ErrValue: errValue})
					if pi != nil {
						c.CheckTotal(in.name, 0, pi, 0)
					}
					if !c.Oracle("C19") {
						continue
					}
					if k < len(full) && err == nil {
						c.Violation("write-failure-swallowed", in.name, "destination failed after %d of %d bytes (short=%v transient=%v readerFrom=%v): serializer returned nil", k, len(full), short, transient, rf)
					}
					if transient {
						// a device that recovers after one failed Write: only the error is
						// demanded (whether further writes are attempted is not judged, so
						// the prefix clause applies only if none was)
						if sw.CallsAfterFail == 0 && !bytes.HasPrefix(full, sw.Accepted) {
							c.Violation("not-a-prefix", in.name, "bytes accepted before the transient failure at %d are not a prefix of the fault-free output", k)
						}
						continue
					}
					if es, isSw := err.(errSwallowed); isSw {
						c.Violation("write-failure-swallowed", in.name, "destination failed after %d of %d bytes: %v", k, len(full), es)
					}
					if !bytes.HasPrefix(full, sw.Accepted) {
						c.Violation("not-a-prefix", in.name, "bytes accepted before the failure at %d are not a prefix of the fault-free output", k)
					}
					if k == len(full) && (err != nil || !bytes.Equal(sw.Accepted, full)) {
						c.Violation("control-failed", in.name, "no-fault control (k = len) failed: %v", err)
					}
					if in.count != nil && in.count() != int64(len(sw.Accepted)) {
						c.Violation("count-mismatch", in.name, "returned count %d, destination accepted %d (fail at %d, short=%v)", in.count(), len(sw.Accepted), k, short)
					}
				}
			}
			// the same artifact into a REAL file on a disk that fills up after k bytes (the
			// kernel enforces the quota): for serializers that treat *os.File specially
			if in.run != nil && c.Chance("realFile", 1, 8) {
				nq := 3
				for i := 0; i < nq; i++ {
					k := c.Int("realFile.k", 0, len(full))
					if i == 0 {
						k = c.PickInt("realFile.k0", 0, len(full)-1, len(full))
					}
					if k < 0 {
						k = 0
					}
					var rerr error
					var pi *core.PanicInfo
					acc, ferr := c.WithQuotaFile(k, func(f *os.File) {
						pi = c.Guard(in.name, func() { rerr = in.run(f) })
					})
					if ferr != nil {
						c.Event("quota file unavailable: %v", ferr)
						break
					}
					if pi != nil {
						c.CheckTotal(in.name, 0, pi, 0)
					}
					if !c.Oracle("C19") {
						continue
					}
					if k < len(full) && rerr == nil {
						c.Violation("write-failure-swallowed", in.name+"/real-file", "a real file on a disk full after %d of %d bytes: serializer returned nil", k, len(full))
					}
					if !bytes.HasPrefix(full, acc) {
						c.Violation("not-a-prefix", in.name+"/real-file", "the file holds %d bytes that are not a prefix of the fault-free output (disk full after %d)", len(acc), k)
					}
					if k >= len(full) && (rerr != nil || !bytes.Equal(acc, full)) {
						c.Violation("control-failed", in.name+"/real-file", "no-fault control into a real file failed: %v (%d of %d bytes)", rerr, len(acc), len(full))
					}
					if in.count != nil && in.count() != int64(len(acc)) {
						c.Violation("count-mismatch", in.name+"/real-file", "returned count %d, the file holds %d bytes (disk full after %d)", in.count(), len(acc), k)
					}
				}
				c.Probe("real file destination under a size quota")
			}
			if len(full) <= limit {
				core.ExhaustiveDone("C19: every failure position k in [0,len] x {error, short write, one-shot failure, sentinel error value, partial one-shot failure, fixed-size destination, healthy device taking k bytes per call} for one artifact", 1)
			}
			c.Outcome("done")
			c.Sig("%s/rf%v/len%d", in.name, rf, len(full)/64)
		})
	})
}

// ---- C18: histories ------------------------------------------------------------------------

func soloOutput(c *core.Ctx, in *inst) outcome {
	if in.reference != nil {
		in = in.reference()
	}
	sw, err, pi := runInto(c, in, core.WriterPlan{FailAt: -1})
	if pi != nil {
		c.CheckTotal(in.name, 0, pi, 0)
	}
	if err != nil {
		c.Probe("serializer refuses the input (must do so on every call)")
	}
	return outcome{sw.Accepted, err != nil}
}

func TestHistory(t *testing.T) {
	rapid.Check(t, func(t *rapid.T) {
		core.Run(t, "serial/history", func(c *core.Ctx) {
			n := c.Int("ninsts", 2, 4)
			var insts []*inst
			var solo []outcome
			var before []uint64
			for i := 0; i < n; i++ {
				in := pickInst(c, false)
				insts = append(insts, in)
				if in.sharedHash != nil { // (taken before the very first call)
					before = append(before, in.sharedHash())
				} else {
					before = append(before, 0)
				}
				solo = append(solo, soloOutput(c, in))
			}
			// variants: same logical input, different construction history
			type call struct {
				in  *inst
				ref int
			}
			var pool []call
			for i, in := range insts {
				pool = append(pool, call{in, i})
				if in.variant != nil {
					nv := c.Int("nvariants", 1, 3)
					for v := 0; v < nv; v++ {
						pool = append(pool, call{in.variant(c), i})
					}
				}
			}
			// a drawn history of calls: repeats, interleaved with the other serializers
			calls := c.Int("ncalls", 16, 96)
			for k := 0; k < calls; k++ {
				cl := pool[c.Pick("call", len(pool))]
				if !solo[cl.ref].failed && len(solo[cl.ref].out) > 0 && c.Chance("call.failingDevice", 1, 6) {
					// an unrelated earlier failure: this call's destination breaks part-way; what it
					// returns is not judged here (C19 does), but it must leave nothing behind that
					// changes the output of later calls
					wp := core.WriterPlan{FailAt: c.Int("call.failAt", 0, len(solo[cl.ref].out)-1), Short: c.Bool("call.short"), Transient: c.Bool("call.transient")}
					_, _, pi := runInto(c, cl.in, wp)
					if pi != nil {
						c.CheckTotal(cl.in.name, 0, pi, 0)
					}
					c.Probe("history contains a call whose destination failed")
					continue
				}
				sw, err, pi := runInto(c, cl.in, core.WriterPlan{FailAt: -1, ReaderFrom: c.Bool("dst.readerFrom")})
				if pi != nil {
					c.CheckTotal(cl.in.name, 0, pi, 0)
				}
				if !purity(c) {
					continue
				}
				if got := (outcome{sw.Accepted, err != nil}); !got.same(solo[cl.ref]) {
					c.Violation("output-depends-on-history", cl.in.name, "call %d of the history: error=%v, %d bytes; solo first call: error=%v, %d bytes; first difference at %d (%v)", k, got.failed, len(got.out), solo[cl.ref].failed, len(solo[cl.ref].out), firstDiff(got.out, solo[cl.ref].out), err)
				}
			}
			if purity(c) {
				for i, in := range insts {
					if in.sharedHash != nil && in.sharedHash() != before[i] {
						c.Violation("shared-input-modified", in.name, "a shared read-only input changed during the history")
					}
				}
			}
			c.Outcome("nt:ok")
			for _, in := range insts {
				c.Sig("%s", in.name)
			}
		})
	})
}

func firstDiff(a, b []byte) int {
	for i := 0; i < len(a) && i < len(b); i++ {
		if a[i] != b[i] {
			return i
		}
	}
	if len(a) < len(b) {
		return len(a)
	}
	return len(b)
}

// ---- C18: seeded cooperative interleaving -------------------------------------------------------

func sitesOf(ts []*stask) int {
	n := 0
	for _, t := range ts {
		n += t.sites
	}
	return n
}

type stask struct {
	rng       uint64
	sites     int
	libYields int
	id        int
	in        *inst
	resume    chan struct{}
	yielded   chan struct{}
	done      bool
	out       []byte
	err       error
	panicV    interface{}
	yields    int
	gid       uint64 // the task's own goroutine (others, started by the code under test, are never parked)
}

// TestInterleave: N caller tasks are real goroutines, but exactly one runs at
// a time; a task parks at every Write to its destination and the next task to
// run is a Draw.
func TestInterleave(t *testing.T) {
	rapid.Check(t, func(t *rapid.T) {
		core.Run(t, "serial/interleave", func(c *core.Ctx) { interleave(c, false) })
	})
}

// TestInterleaveFine: the same, in a binary whose library sources carry
// AST-inserted yield points (function entries, loop heads): a task may also be
// parked inside the library, not only at its destination's Write. Whether a
// given yield point parks is decided by a per-task generator seeded by a Draw.
func TestInterleaveFine(t *testing.T) {
	rapid.Check(t, func(t *rapid.T) {
		core.Run(t, "serial/interleave-fine", func(c *core.Ctx) { interleave(c, true) })
	})
}

var curTask *stask // the task the scheduler is currently running (nil: none)

// schedExpectedG is the number of goroutines the process has while every live task is
// the harness's own; schedDegraded is set once a task was seen blocked. While neither
// says otherwise, the goroutine calling a hook is the current task's (fast path); else
// it is identified by its id, and goroutines the code under test started are let through.
var (
	schedExpectedG atomic.Int64
	schedDegraded  atomic.Bool
	schedByGid     map[uint64]*stask
)

func callerTask() *stask {
	if !schedDegraded.Load() && int64(runtime.NumGoroutine()) == schedExpectedG.Load() {
		return curTask
	}
	return schedByGid[core.Goid()]
}

func interleave(c *core.Ctx, fine bool) {
	{
		{
			ninst := c.Int("ninsts", 1, 4)
			var insts []*inst
			var solo []outcome
			var before []uint64
			for i := 0; i < ninst; i++ {
				in := pickInstFor(c, false, false)
				insts = append(insts, in)
				if in.sharedHash != nil { // (taken before the very first call)
					before = append(before, in.sharedHash())
				} else {
					before = append(before, 0)
				}
				solo = append(solo, soloOutput(c, in))
			}
			if c.Chance("earlierFailures", 1, 3) {
				// history before the tasks start: some of these serializers already failed
				// part-way on a broken destination in this process
				for i, in := range insts {
					if solo[i].failed || len(solo[i].out) == 0 {
						continue
					}
					for rep := c.Int("earlierFailures.n", 1, 3); rep > 0; rep-- {
						wp := core.WriterPlan{FailAt: c.Int("earlierFailures.at", 0, len(solo[i].out)-1), Short: c.Bool("earlierFailures.short")}
						if _, _, pi := runInto(c, in, wp); pi != nil {
							c.CheckTotal(in.name, 0, pi, 0)
						}
					}
				}
				c.Probe("interleaving after earlier failed serializations")
			}
			ntasks := c.Int("ntasks", 2, 8)
			period := uint64(1)
			if fine {
				period = uint64(c.PickInt("yield.period", 1, 2, 5, 17, 60))
				verifyield.Hook = func(site int) {
					tk := callerTask()
					if tk == nil {
						return
					}
					tk.sites++
					tk.rng = tk.rng*6364136223846793005 + 1442695040888963407
					if (tk.rng>>33)%period == 0 {
						tk.libYields++
						tk.yielded <- struct{}{}
						<-tk.resume
					}
				}
				defer func() { verifyield.Hook = nil }()
			}
			schedDegraded.Store(false)
			baseG := int64(runtime.NumGoroutine())
			schedExpectedG.Store(-1) // (until all tasks exist, callers are identified by goroutine id)
			var tasks []*stask
			ref := []int{}
			for i := 0; i < ntasks; i++ {
				k := c.Pick("task.inst", ninst) // several tasks may share one instance: shared read-only inputs
				tk := &stask{id: i, in: insts[k], resume: make(chan struct{}), yielded: make(chan struct{})}
				if fine {
					tk.rng = c.U64("task.yieldSeed", 0, ^uint64(0))
				}
				tasks = append(tasks, tk)
				ref = append(ref, k)
			}
			var starts []chan struct{}
			for _, tk := range tasks {
				tk := tk
				w := c.NewWriter(fmt.Sprintf("dst%d", tk.id), core.WriterPlan{FailAt: -1})
				sw := core.Unwrap(w)
				sw.OnCall = func() {
					if callerTask() != tk {
						return // a goroutine the code under test started itself: cannot be parked
					}
					tk.yields++
					tk.yielded <- struct{}{}
					<-tk.resume
				}
				started := make(chan struct{})
				starts = append(starts, started)
				go func() {
					tk.gid = core.Goid()
					close(started)
					<-tk.resume
					defer func() {
						if r := recover(); r != nil {
							tk.panicV = r
						}
						tk.out = sw.Accepted
						tk.done = true
						tk.yielded <- struct{}{}
					}()
					tk.err = tk.in.run(w)
				}()
			}
			schedByGid = map[uint64]*stask{}
			for i, st := range starts {
				<-st
				schedByGid[tasks[i].gid] = tasks[i]
			}
			stallTimer := time.NewTimer(time.Hour)
			defer stallTimer.Stop()
			var schedule []byte
			var running []*stask // resumed, neither parked nor finished within core.StallAfter
			collect := func(wait time.Duration) bool {
				deadline := time.Now().Add(wait)
				for {
					for k := 0; k < len(running); k++ {
						select {
						case <-running[k].yielded:
							running = append(running[:k], running[k+1:]...)
							return true
						default:
						}
					}
					if wait == 0 || time.Now().After(deadline) {
						return false
					}
					time.Sleep(2 * time.Millisecond)
				}
			}
			for {
				for collect(0) {
				}
				var runnable []*stask
				alive := 0
				for _, tk := range tasks {
					if tk.done {
						continue
					}
					alive++
					blocked := false
					for _, r := range running {
						blocked = blocked || r == tk
					}
					if !blocked {
						runnable = append(runnable, tk)
					}
				}
				schedExpectedG.Store(baseG + int64(alive))
				if len(runnable) == 0 {
					if len(running) == 0 {
						break
					}
					if !collect(core.DeadlockAfter) {
						c.Event("scheduler: %d task(s) blocked, none parked", len(running))
						c.Deadlock(running[0].in.name)
					}
					continue
				}
				tk := runnable[c.Pick("sched.next", len(runnable))]
				if len(schedule) < 64 {
					schedule = append(schedule, byte('0'+tk.id))
				}
				curTask = tk
				if !stallTimer.Stop() {
					select {
					case <-stallTimer.C:
					default:
					}
				}
				stallTimer.Reset(core.StallLimit())
				tk.resume <- struct{}{}
				select {
				case <-tk.yielded:
				case <-stallTimer.C:
					core.NoteStall()
					// blocked on something a parked task holds, or waiting for goroutines of its own:
					// let another task run beside it (the run is no longer a function of the seed alone)
					schedDegraded.Store(true)
					running = append(running, tk)
					c.Event("scheduler: task %d (%s) is blocked; another task runs beside it", tk.id, tk.in.name)
					c.Probe("scheduler: a resumed task blocked (lock held by a parked task, or waiting for its own goroutines)")
				}
				curTask = nil
			}
			if fine {
				lib := 0
				for _, tk := range tasks {
					lib += tk.libYields
				}
				if lib > 0 {
					c.Probe("task parked inside the library (AST yield point)")
				}
				c.Event("library yield points passed / parked: %d / %d", sitesOf(tasks), lib)
			}
			c.Event("schedule %s", schedule)
			switches := 0
			for i := 1; i < len(schedule); i++ {
				if schedule[i] != schedule[i-1] {
					switches++
				}
			}
			if purity(c) {
				for i, tk := range tasks {
					if tk.panicV != nil {
						c.Violation("panic", tk.in.name, "task %d panicked: %v", i, tk.panicV)
					}
					if got := (outcome{tk.out, tk.err != nil}); !got.same(solo[ref[i]]) {
						c.Violation("output-depends-on-schedule", tk.in.name, "task %d: error=%v, %d bytes; solo run: error=%v, %d bytes, under schedule %s (first difference at %d)", i, got.failed, len(got.out), solo[ref[i]].failed, len(solo[ref[i]].out), schedule, firstDiff(tk.out, solo[ref[i]].out))
					}
				}
				for i, in := range insts {
					if in.sharedHash != nil && in.sharedHash() != before[i] {
						c.Violation("shared-input-modified", in.name, "a shared read-only input changed")
					}
				}
			}
			c.Outcome("nt:ok")
			c.Sig("%s", schedule)
			if switches > 3 {
				c.Probe("schedule with more than 3 task switches")
			}
		}
	}
}

// ---- C18: real parallelism under the race detector ---------------------------------------------------

// TestParallelRace: the same task sets as real goroutines released from a
// barrier in a drawn order. Built with -race by the driver; the race
// detector's report is picked up from the process output.
func TestParallelRace(t *testing.T) {
	rapid.Check(t, func(t *rapid.T) {
		core.Run(t, "serial/parallel-race", func(c *core.Ctx) {
			ninst := c.Int("ninsts", 1, 3)
			var insts []*inst
			var solo []outcome
			var before []uint64
			// In half of the runs the solo (model) outputs are computed after the
			// parallel phase: whatever the code under test fills in lazily on the first
			// sighting of an input (a cache, a table) is then filled in by the parallel
			// callers themselves.
			soloAfter := c.Bool("solo.after")
			for i := 0; i < ninst; i++ {
				in := pickInstFor(c, false, false)
				insts = append(insts, in)
				if in.sharedHash != nil { // (taken before the very first call)
					before = append(before, in.sharedHash())
				} else {
					before = append(before, 0)
				}
				if !soloAfter {
					solo = append(solo, soloOutput(c, in))
				}
			}
			ntasks := c.Int("ntasks", 2, 8)
			reps := c.Int("reps", 1, 4)
			type res struct {
				out []byte
				err error
				pan interface{}
			}
			results := make([][]res, ntasks)
			ref := make([]int, ntasks)
			gates := make([]chan struct{}, ntasks)
			var wg sync.WaitGroup
			for i := 0; i < ntasks; i++ {
				i := i
				ref[i] = c.Pick("task.inst", ninst)
				gates[i] = make(chan struct{})
				results[i] = make([]res, reps)
				in := insts[ref[i]]
				wg.Add(1)
				go func() {
					defer wg.Done()
					<-gates[i]
					for r := 0; r < reps; r++ {
						func() {
							defer func() {
								if p := recover(); p != nil {
									results[i][r].pan = p
								}
							}()
							var buf bytes.Buffer
							results[i][r].err = in.run(plainWriter{&buf})
							results[i][r].out = buf.Bytes()
						}()
					}
				}()
			}
			for _, i := range c.Perm("start.order", ntasks) {
				close(gates[i])
			}
			wg.Wait()
			if soloAfter {
				c.Probe("solo outputs computed after the parallel phase")
				for _, in := range insts {
					solo = append(solo, soloOutput(c, in))
				}
			}
			if purity(c) {
				for i := range results {
					for r := range results[i] {
						x := results[i][r]
						name := insts[ref[i]].name
						if x.pan != nil {
							c.Violation("panic", name, "task %d panicked: %v", i, x.pan)
						}
						if got := (outcome{x.out, x.err != nil}); !got.same(solo[ref[i]]) {
							c.Violation("output-depends-on-schedule", name, "task %d rep %d: error=%v, %d bytes; solo run: error=%v, %d bytes when run in parallel (first difference at %d)", i, r, got.failed, len(got.out), solo[ref[i]].failed, len(solo[ref[i]].out), firstDiff(x.out, solo[ref[i]].out))
						}
					}
				}
				for i, in := range insts {
					if in.sharedHash != nil && in.sharedHash() != before[i] {
						c.Violation("shared-input-modified", in.name, "a shared read-only input changed")
					}
				}
			}
			c.Outcome("nt:ok")
			for _, in := range insts {
				c.Sig("%s", in.name)
			}
			c.Sig("t%d", ntasks)
		})
	})
}

type plainWriter struct{ w io.Writer }

func (p plainWriter) Write(b []byte) (int, error) { return p.w.Write(b) }
