// yieldgen writes instrumented copies of the repository's library sources:
// a call verifyield.Yield(<site>) is inserted at the start of every function
// body and of every for / range loop body. Nothing else is changed. The copies
// are overlaid over the originals for one test binary (C18 interleave-fine).
//
// usage: yieldgen <repo root> <out dir>   (prints "orig<TAB>copy" lines)
package main

import (
	"bytes"
	"fmt"
	"go/ast"
	"go/format"
	"go/parser"
	"go/token"
	"os"
	"path/filepath"
	"strconv"
	"strings"
)

var pkgs = []string{
	"go/internal/cbor", "go/bundle", "go/bundle/version", "go/bundle/signature",
	"go/signedexchange", "go/signedexchange/certurl", "go/signedexchange/mice", "go/signedexchange/structuredheader",
	"go/signedexchange/version", "go/signedexchange/internal/bigendian", "go/integrityblock", "go/integrityblock/webbundleid",
}

func main() {
	repo, out := os.Args[1], os.Args[2]
	site := 0
	for _, p := range pkgs {
		files, _ := filepath.Glob(filepath.Join(repo, p, "*.go"))
		for _, f := range files {
			if strings.HasSuffix(f, "_test.go") {
				continue
			}
			fset := token.NewFileSet()
			af, err := parser.ParseFile(fset, f, nil, parser.ParseComments)
			if err != nil {
				fmt.Fprintln(os.Stderr, "yieldgen:", err)
				os.Exit(1)
			}
			n0 := site
			call := func() ast.Stmt {
				site++
				return &ast.ExprStmt{X: &ast.CallExpr{
					Fun:  &ast.SelectorExpr{X: ast.NewIdent("verifyield"), Sel: ast.NewIdent("Yield")},
					Args: []ast.Expr{&ast.BasicLit{Kind: token.INT, Value: strconv.Itoa(site)}},
				}}
			}
			// Comparator closures handed to package sort are not instrumented: how often
			// they run depends on the initial order of the data, which for map-backed
			// collections is Go's randomised iteration order - the number of yield points
			// passed would no longer be a function of the seed.
			skip := map[*ast.FuncLit]bool{}
			ast.Inspect(af, func(n ast.Node) bool {
				if ce, ok := n.(*ast.CallExpr); ok {
					if se, ok := ce.Fun.(*ast.SelectorExpr); ok {
						if id, ok := se.X.(*ast.Ident); ok && id.Name == "sort" {
							for _, a := range ce.Args {
								if fl, ok := a.(*ast.FuncLit); ok {
									skip[fl] = true
								}
							}
						}
					}
				}
				return true
			})
			ast.Inspect(af, func(n ast.Node) bool {
				switch x := n.(type) {
				case *ast.FuncDecl:
					// one-line accessors (a single return statement) are left alone: they are
					// what sort comparators call (MapEntryEncoder.KeyBytes), see above
					if x.Body != nil && len(x.Body.List) == 1 {
						if _, isRet := x.Body.List[0].(*ast.ReturnStmt); isRet {
							return true
						}
					}
					if x.Body != nil && x.Name.Name != "init" {
						x.Body.List = append([]ast.Stmt{call()}, x.Body.List...)
					}
				case *ast.FuncLit:
					if !skip[x] {
						x.Body.List = append([]ast.Stmt{call()}, x.Body.List...)
					}
				case *ast.ForStmt:
					x.Body.List = append([]ast.Stmt{call()}, x.Body.List...)
				case *ast.RangeStmt:
					x.Body.List = append([]ast.Stmt{call()}, x.Body.List...)
				}
				return true
			})
			if site == n0 {
				continue
			}
			// add the import (as its own declaration right after the package clause's imports)
			imp := &ast.GenDecl{Tok: token.IMPORT, Specs: []ast.Spec{&ast.ImportSpec{Path: &ast.BasicLit{Kind: token.STRING, Value: `"github.com/WICG/webpackage/go/verifyield"`}}}}
			af.Decls = append([]ast.Decl{imp}, af.Decls...)
			var buf bytes.Buffer
			if err := format.Node(&buf, fset, af); err != nil {
				fmt.Fprintln(os.Stderr, "yieldgen:", f, err)
				os.Exit(1)
			}
			rel, _ := filepath.Rel(repo, f)
			dst := filepath.Join(out, strings.ReplaceAll(rel, "/", "__"))
			if err := os.WriteFile(dst, buf.Bytes(), 0644); err != nil {
				fmt.Fprintln(os.Stderr, "yieldgen:", err)
				os.Exit(1)
			}
			fmt.Printf("%s\t%s\n", f, dst)
		}
	}
	fmt.Fprintf(os.Stderr, "yieldgen: %d yield sites\n", site)
}
