// Package refsxg is an independent model of the application/signed-exchange
// container (versions b1, b2, b3 of draft-yasskin-http-origin-signed-responses)
// and of the acceptance policy a client applies (property C09). It shares no
// code with the repository.
package refsxg

import (
	"encoding/base64"
	"errors"
	"fmt"
	"sort"
	"strconv"
	"strings"

	"verifsim/ref/refcbor"
)

// File is a parsed application/signed-exchange file.
type File struct {
	Version   string // "1b1", "1b2", "1b3"
	URL       string
	Method    string
	Signature string
	Req       map[string]string // canonical request headers (b1/b2), pseudo keys excluded
	Resp      map[string]string // canonical response headers, :status excluded
	Status    string
	Payload   []byte
	// field offsets for the metadata-corruption fault
	URLLenOff, SigLenOff, HdrLenOff int
	SigOff, HdrOff, PayloadOff      int
	HeaderBytes                     []byte
}

func be(b []byte) int {
	n := 0
	for _, x := range b {
		n = n<<8 | int(x)
	}
	return n
}

// Parse parses a file. It is strict about structure and lenient about CBOR
// canonical form.
func Parse(b []byte) (*File, error) {
	f := &File{URLLenOff: -1}
	if len(b) < 8 {
		return nil, errors.New("refsxg: short magic")
	}
	switch string(b[:8]) {
	case "sxg1-b1\x00":
		f.Version = "1b1"
	case "sxg1-b2\x00":
		f.Version = "1b2"
	case "sxg1-b3\x00":
		f.Version = "1b3"
	default:
		return nil, errors.New("refsxg: unknown magic")
	}
	pos := 8
	if f.Version != "1b1" {
		if len(b) < pos+2 {
			return nil, errors.New("refsxg: truncated fallbackUrlLength")
		}
		f.URLLenOff = pos
		n := be(b[pos : pos+2])
		pos += 2
		if len(b) < pos+n {
			return nil, errors.New("refsxg: truncated fallback URL")
		}
		f.URL = string(b[pos : pos+n])
		pos += n
	}
	if len(b) < pos+6 {
		return nil, errors.New("refsxg: truncated length fields")
	}
	f.SigLenOff, f.HdrLenOff = pos, pos+3
	sl, hl := be(b[pos:pos+3]), be(b[pos+3:pos+6])
	pos += 6
	if len(b) < pos+sl+hl {
		return nil, errors.New("refsxg: truncated signature / header block")
	}
	f.SigOff = pos
	f.Signature = string(b[pos : pos+sl])
	pos += sl
	f.HdrOff = pos
	hb := b[pos : pos+hl]
	f.HeaderBytes = hb
	pos += hl
	f.PayloadOff = pos
	f.Payload = b[pos:]
	// headers
	it, err := refcbor.Decode(hb, 0)
	if err != nil {
		return nil, fmt.Errorf("refsxg: header block: %v", err)
	}
	respMap := it
	f.Req, f.Resp = map[string]string{}, map[string]string{}
	if f.Version != "1b3" {
		if it.Major != 4 || len(it.Elems) != 2 {
			return nil, errors.New("refsxg: header block is not [request, response]")
		}
		rq := it.Elems[0]
		if rq.Major != 5 {
			return nil, errors.New("refsxg: request headers not a map")
		}
		for i := 0; i+1 < len(rq.Elems); i += 2 {
			k, v := rq.Elems[i], rq.Elems[i+1]
			if k.Major != 2 || v.Major != 2 {
				return nil, errors.New("refsxg: request header entry not bstr:bstr")
			}
			switch string(k.Bytes) {
			case ":method":
				f.Method = string(v.Bytes)
			case ":url":
				if f.Version != "1b1" {
					return nil, errors.New("refsxg: :url in a b2 request map")
				}
				f.URL = string(v.Bytes)
			default:
				f.Req[string(k.Bytes)] = string(v.Bytes)
			}
		}
		respMap = it.Elems[1]
	} else {
		f.Method = "GET"
	}
	if respMap.Major != 5 {
		return nil, errors.New("refsxg: response headers not a map")
	}
	for i := 0; i+1 < len(respMap.Elems); i += 2 {
		k, v := respMap.Elems[i], respMap.Elems[i+1]
		if k.Major != 2 || v.Major != 2 {
			return nil, errors.New("refsxg: response header entry not bstr:bstr")
		}
		if string(k.Bytes) == ":status" {
			f.Status = string(v.Bytes)
			continue
		}
		f.Resp[string(k.Bytes)] = string(v.Bytes)
	}
	return f, nil
}

// HeaderBlock serializes canonical header maps the way the format prescribes.
// MethodAbsent as method makes HeaderBlock omit the :method entry.
const MethodAbsent = "\x00absent"

func HeaderBlock(version, url, method string, req map[string]string, status string, resp map[string]string) []byte {
	enc := func(m map[string]string, pseudo [][2]string) []byte {
		var kvs []refcbor.KV
		for _, p := range pseudo {
			kvs = append(kvs, refcbor.KV{K: refcbor.AppendBytes(nil, []byte(p[0])), V: refcbor.AppendBytes(nil, []byte(p[1]))})
		}
		keys := make([]string, 0, len(m))
		for k := range m {
			keys = append(keys, k)
		}
		sort.Strings(keys)
		for _, k := range keys {
			kvs = append(kvs, refcbor.KV{K: refcbor.AppendBytes(nil, []byte(k)), V: refcbor.AppendBytes(nil, []byte(m[k]))})
		}
		return refcbor.AppendMap(nil, kvs)
	}
	respB := enc(resp, [][2]string{{":status", status}})
	if version == "1b3" {
		return respB
	}
	ps := [][2]string{{":method", method}}
	if method == MethodAbsent {
		ps = nil // the request map carries no :method entry at all
	}
	if version == "1b1" {
		ps = append(ps, [2]string{":url", url})
	}
	out := refcbor.AppendArray(nil, 2)
	out = append(out, enc(req, ps)...)
	return append(out, respB...)
}

// Build serializes a file (the Byzantine re-encoder). Length fields are
// written modulo their width: the re-encoder is an adversary, not a validator.
func Build(version, url, signature string, headerBlock, payload []byte) []byte {
	var out []byte
	out = append(out, "sxg1-b"+version[2:]+"\x00"...)
	if version != "1b1" {
		out = append(out, byte(len(url)>>8), byte(len(url)))
		out = append(out, url...)
	}
	out = append(out, byte(len(signature)>>16), byte(len(signature)>>8), byte(len(signature)))
	out = append(out, byte(len(headerBlock)>>16), byte(len(headerBlock)>>8), byte(len(headerBlock)))
	out = append(out, signature...)
	out = append(out, headerBlock...)
	return append(out, payload...)
}

// ---- Signature header (one parameterised identifier, as the signer emits) -----

// SigParam is one parameter, value kept in its serialized form.
type SigParam struct{ Key, Raw string }

// ParseSignature splits `label;k=v;k=v...` into label and parameters. Values
// are double-quoted strings (with backslash escapes), *base64* byte sequences
// or integers. Only the single-item shape the signer emits is supported.
func ParseSignature(s string) (string, []SigParam, error) {
	i := strings.IndexByte(s, ';')
	if i < 0 {
		return s, nil, nil
	}
	label := s[:i]
	var ps []SigParam
	rest := s[i:]
	for len(rest) > 0 {
		if rest[0] != ';' {
			return "", nil, fmt.Errorf("refsxg: expected ';' at %q", rest)
		}
		rest = strings.TrimLeft(rest[1:], " ")
		eq := strings.IndexAny(rest, "=;")
		if eq < 0 || rest[eq] == ';' {
			return "", nil, fmt.Errorf("refsxg: parameter without value at %q", rest)
		}
		key := rest[:eq]
		rest = rest[eq+1:]
		var raw string
		switch {
		case rest == "":
			return "", nil, errors.New("refsxg: empty value")
		case rest[0] == '"':
			j := 1
			for j < len(rest) && rest[j] != '"' {
				if rest[j] == '\\' {
					j++
				}
				j++
			}
			if j >= len(rest) {
				return "", nil, errors.New("refsxg: unterminated string")
			}
			raw, rest = rest[:j+1], rest[j+1:]
		case rest[0] == '*':
			j := strings.IndexByte(rest[1:], '*')
			if j < 0 {
				return "", nil, errors.New("refsxg: unterminated byte sequence")
			}
			raw, rest = rest[:j+2], rest[j+2:]
		default:
			j := strings.IndexByte(rest, ';')
			if j < 0 {
				j = len(rest)
			}
			raw, rest = rest[:j], rest[j:]
		}
		ps = append(ps, SigParam{key, raw})
	}
	return label, ps, nil
}

// FormatSignature is the inverse of ParseSignature.
func FormatSignature(label string, ps []SigParam) string {
	var sb strings.Builder
	sb.WriteString(label)
	for _, p := range ps {
		sb.WriteString(";" + p.Key + "=" + p.Raw)
	}
	return sb.String()
}

func RawBytes(b []byte) string  { return "*" + base64.StdEncoding.EncodeToString(b) + "*" }
func RawString(s string) string { return strconv.Quote(s) }
func RawInt(n int64) string     { return strconv.FormatInt(n, 10) }

// BytesOf decodes a *base64* raw value.
func BytesOf(raw string) ([]byte, bool) {
	if len(raw) < 2 || raw[0] != '*' || raw[len(raw)-1] != '*' {
		return nil, false
	}
	b, err := base64.StdEncoding.DecodeString(raw[1 : len(raw)-1])
	return b, err == nil
}

// ---- acceptance policy (C09) ---------------------------------------------------

// Policy inputs of one exchange whose signature and payload are honest.
type Policy struct {
	Version         string
	URLScheme       string // request URL
	URLHost         string // host[:port] exactly as written
	ValidityScheme  string
	ValidityHost    string
	Date, Expires   int64
	Integrity       string
	Method          string
	ReqHeaderNames  []string
	RespHeaderNames []string
	Status          int
	CacheControl    string // "" = absent
	HasExpires      bool
	HasContentType  bool
}

// From the draft: stateful request header fields, and uncached response header
// fields (hop-by-hop fields plus stateful response header fields).
var statefulRequest = []string{"authorization", "cookie", "cookie2", "proxy-authorization", "sec-websocket-key"}
var uncachedResponse = []string{
	"connection", "keep-alive", "proxy-connection", "trailer", "transfer-encoding", "upgrade",
	"authentication-control", "authentication-info", "clear-site-data", "optional-www-authenticate", "proxy-authenticate",
	"proxy-authentication-info", "public-key-pins", "sec-websocket-accept", "set-cookie", "set-cookie2", "setprofile",
	"strict-transport-security", "www-authenticate",
}

func in(list []string, s string) bool {
	s = strings.ToLower(s)
	for _, x := range list {
		if x == s {
			return true
		}
	}
	return false
}

// Status codes heuristically cacheable by default (RFC 7231 section 6.1).
var cacheableByDefault = []int{200, 203, 204, 206, 300, 301, 404, 405, 410, 414, 501}

// splitDirectives splits a Cache-Control value (RFC 7234 section 5.2: 1#cache-directive,
// cache-directive = token [ "=" ( token / quoted-string ) ]) at the commas that are not
// inside a quoted-string; inside one, a backslash quotes the next character.
func splitDirectives(v string) []string {
	var out []string
	start, inQ := 0, false
	for i := 0; i < len(v); i++ {
		switch {
		case inQ && v[i] == '\\':
			i++
		case v[i] == '"':
			inQ = !inQ
		case v[i] == ',' && !inQ:
			out = append(out, v[start:i])
			start = i + 1
		}
	}
	return append(out, v[start:])
}

// Storable implements RFC 7234 section 3 for a shared cache, for responses to
// GET without Authorization, given that the status code is understood.
func Storable(status int, cacheControl string, hasExpires bool) bool {
	dirs := map[string]bool{}
	for _, d := range splitDirectives(cacheControl) {
		d = strings.TrimSpace(d)
		if i := strings.IndexByte(d, '='); i >= 0 {
			d = d[:i]
		}
		dirs[strings.ToLower(strings.TrimSpace(d))] = true
	}
	if dirs["no-store"] || dirs["private"] {
		return false
	}
	if hasExpires || dirs["max-age"] || dirs["s-maxage"] || dirs["public"] {
		return true
	}
	for _, s := range cacheableByDefault {
		if s == status {
			return true
		}
	}
	return false
}

// Accept is the acceptance predicate at verification time t (seconds, with a
// sub-second part tNanos in [0, 1e9)). It returns the verdict and the name of
// the first violated condition.
func Accept(p Policy, t int64, tNanos int64, statusUnderstood bool) (bool, string) {
	if p.ValidityScheme != p.URLScheme || p.ValidityHost != p.URLHost {
		return false, "validity-url not same-origin"
	}
	if p.Expires-p.Date > 604800 {
		return false, "lifetime above 7 days"
	}
	if t < p.Date {
		return false, "not yet valid"
	}
	if t > p.Expires || (t == p.Expires && tNanos > 0) {
		return false, "expired"
	}
	want := "digest/mi-sha256-03"
	if p.Version == "1b1" {
		want = "mi-draft2"
	}
	if p.Integrity != want {
		return false, "integrity scheme"
	}
	if p.Version != "1b3" {
		if p.Method != "GET" && p.Method != "HEAD" {
			return false, "method"
		}
		for _, n := range p.ReqHeaderNames {
			if in(statefulRequest, n) {
				return false, "stateful request header"
			}
		}
	} else {
		if !p.HasContentType {
			return false, "content-type absent"
		}
		if !statusUnderstood || !Storable(p.Status, p.CacheControl, p.HasExpires) {
			return false, "not storable by a shared cache"
		}
	}
	for _, n := range p.RespHeaderNames {
		if in(uncachedResponse, n) {
			return false, "uncached response header"
		}
	}
	return true, ""
}
