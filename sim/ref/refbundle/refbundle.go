// Package refbundle is an independent, format-level model of the Web Bundle
// container (draft-ietf-wpack-bundled-responses, versions b1 and b2 as used by
// the repository): a bounds-checked parser producing a field map, a strict
// well-formedness judgement (property C04), a lenient extractor (property
// C05) and a writer used by the Byzantine re-encoder. It shares no code with
// the repository; CBOR handling comes from refcbor.
//
//	b1: [ magic, version, primary-url, section-lengths, sections, length ]
//	b2: [ magic, version,              section-lengths, sections, length ]
package refbundle

import (
	"math/big"
	"bytes"
	"encoding/binary"
	"errors"
	"fmt"
	"strings"

	"verifsim/ref/refcbor"
)

var (
	magicB1 = []byte{0x86, 0x48, 0xf0, 0x9f, 0x8c, 0x90, 0xf0, 0x9f, 0x93, 0xa6, 0x44, 'b', '1', 0, 0}
	magicB2 = []byte{0x85, 0x48, 0xf0, 0x9f, 0x8c, 0x90, 0xf0, 0x9f, 0x93, 0xa6, 0x44, 'b', '2', 0, 0}
)

// Field locates a length / offset / count field (see core.Field).
type Field struct {
	Name  string
	Off   int
	Width int
	Kind  string // "cbor" or "be"
	Value uint64
}

type SectionEntry struct {
	Name string
	Len  uint64
}

type Section struct {
	Name     string
	Off, Len int // absolute offset in the file
}

type Loc struct{ Off, Len uint64 } // relative to the responses section

type IndexEntry struct {
	URL      string
	Variants []byte // b1 variants-value (nil in b2)
	Locs     []Loc
}

type Response struct {
	Status  string
	Headers [][2]string // (name, value) in file order, pseudo headers excluded
	Body    []byte
}

type Exchange struct {
	URL string
	Response
}

type Vouched struct {
	Authority   uint64
	Sig, Signed []byte
}

type Signatures struct {
	Authorities [][]byte // raw CBOR of each augmented certificate map
	Vouched     []Vouched
}

// Parsed is everything the reference parser found.
type Parsed struct {
	Version       string
	PrimaryURL    string
	HasPrimary    bool
	ManifestURL   string
	HasManifest   bool
	Table         []SectionEntry
	SectionsStart int
	Sections      []Section
	Index         []IndexEntry
	Signatures    *Signatures
	Fields        []Field
	FooterOff     int  // where the sections end (sectionsStart + sum of lengths)
	HasFooter     bool // a well-formed 9-byte footer follows immediately and ends the file
	FooterValue   uint64
}

// Verdict classes of the lenient parser.
type Reject struct {
	Listed  bool // a reason the property lists: out of bounds, overflow, disagreement with the section table
	Reason  string
	content bool
}

func (r *Reject) Error() string { return r.Reason }

func listed(format string, a ...interface{}) *Reject {
	return &Reject{Listed: true, Reason: fmt.Sprintf(format, a...)}
}
func other(format string, a ...interface{}) *Reject {
	return &Reject{Listed: false, Reason: fmt.Sprintf(format, a...)}
}

type cursor struct {
	b      []byte
	pos    int
	end    int
	fields *[]Field
	strict *[]string // non-canonical findings (strict mode collects, lenient ignores)
}

func (c *cursor) note(format string, a ...interface{}) {
	if c.strict != nil {
		*c.strict = append(*c.strict, fmt.Sprintf(format, a...))
	}
}

func (c *cursor) head(name string, wantMajor int) (uint64, *Reject) {
	if c.pos >= c.end {
		return 0, other("%s: end of data", name)
	}
	major, _, arg, hl, err := refcbor.Head(c.b[:c.end], c.pos)
	if err != nil {
		return 0, other("%s: %v", name, err)
	}
	if major != wantMajor {
		return 0, other("%s: major type %d, want %d", name, major, wantMajor)
	}
	it := refcbor.Item{Major: major, Arg: arg, HeadLen: hl}
	if !it.ShortestHead() {
		c.note("%s: non-shortest head at %d", name, c.pos)
	}
	if c.fields != nil {
		*c.fields = append(*c.fields, Field{Name: name, Off: c.pos, Width: hl - 1, Kind: "cbor", Value: arg})
	}
	c.pos += hl
	return arg, nil
}

func (c *cursor) str(name string, major int) ([]byte, *Reject) {
	n, rj := c.head(name, major)
	if rj != nil {
		return nil, rj
	}
	if n > uint64(c.end-c.pos) {
		return nil, listed("%s: declared length %d exceeds the %d bytes available", name, n, c.end-c.pos)
	}
	s := c.b[c.pos : c.pos+int(n)]
	c.pos += int(n)
	return s, nil
}

// Parse is the lenient, bounds-checked parser. It accepts non-canonical CBOR
// and a missing footer, and reports a *Reject otherwise.
func Parse(b []byte) (*Parsed, *Reject) { return parse(b, nil) }

func parse(b []byte, strict *[]string) (*Parsed, *Reject) {
	p := &Parsed{}
	switch {
	case bytes.HasPrefix(b, magicB1):
		p.Version = "b1"
	case bytes.HasPrefix(b, magicB2):
		p.Version = "b2"
	default:
		// the magic string and a known version string under the OTHER version's top-level
		// array head: a file of neither version (b1 has six top-level items, b2 five)
		if len(b) >= len(magicB1) && bytes.Equal(b[1:11], magicB1[1:11]) &&
			((b[0] == magicB1[0] && bytes.Equal(b[11:15], magicB2[11:15])) || (b[0] == magicB2[0] && bytes.Equal(b[11:15], magicB1[11:15]))) {
			return nil, listed("top-level array head 0x%02x does not belong to version %q", b[0], b[12:13])
		}
		return nil, other("bad magic / version")
	}
	c := &cursor{b: b, pos: len(magicB1), end: len(b), fields: &p.Fields, strict: strict}
	if p.Version == "b1" {
		u, rj := c.str("primary-url", 3)
		if rj != nil {
			return nil, rj
		}
		p.PrimaryURL, p.HasPrimary = string(u), true
	}
	sl, rj := c.str("section-lengths", 2)
	if rj != nil {
		return nil, rj
	}
	{
		slStart := c.pos - len(sl)
		sc := &cursor{b: b, pos: slStart, end: c.pos, fields: &p.Fields, strict: strict}
		n, rj := sc.head("section-lengths.array", 4)
		if rj != nil {
			return nil, rj
		}
		if n%2 != 0 {
			return nil, other("section-lengths: odd element count %d", n)
		}
		if n > uint64(len(sl)) {
			return nil, other("section-lengths: count %d exceeds data", n)
		}
		for i := uint64(0); i < n; i += 2 {
			name, rj := sc.str("section-lengths.name", 3)
			if rj != nil {
				return nil, rj
			}
			l, rj := sc.head("section-lengths."+string(name)+".length", 0)
			if rj != nil {
				return nil, rj
			}
			for _, e := range p.Table {
				if e.Name == string(name) {
					return nil, listed("duplicate section %q in the section table", name)
				}
			}
			p.Table = append(p.Table, SectionEntry{string(name), l})
		}
		if sc.pos != sc.end {
			sc.note("section-lengths: %d trailing bytes", sc.end-sc.pos)
		}
	}
	ns, rj := c.head("sections.array", 4)
	if rj != nil {
		return nil, rj
	}
	if ns != uint64(len(p.Table)) {
		return nil, listed("sections array has %d elements, the section table %d", ns, len(p.Table))
	}
	p.SectionsStart = c.pos
	if len(p.Table) == 0 || p.Table[len(p.Table)-1].Name != "responses" {
		return nil, listed("last section is not \"responses\"")
	}
	// lay the sections out, overflow- and bounds-checked
	off := uint64(p.SectionsStart)
	for _, e := range p.Table {
		if e.Len > uint64(len(b)) || off+e.Len > uint64(len(b)) {
			return nil, listed("section %q (offset %d, length %d) does not fit in the %d-byte file", e.Name, off, e.Len, len(b))
		}
		p.Sections = append(p.Sections, Section{e.Name, int(off), int(e.Len)})
		off += e.Len
	}
	p.FooterOff = int(off)
	if len(b)-p.FooterOff == 9 && b[p.FooterOff] == 0x48 {
		p.HasFooter = true
		p.FooterValue = binary.BigEndian.Uint64(b[p.FooterOff+1:])
		p.Fields = append(p.Fields, Field{Name: "footer.length", Off: p.FooterOff + 1, Width: 8, Kind: "be", Value: p.FooterValue})
	}
	resp := p.Sections[len(p.Sections)-1]
	for _, s := range p.Sections {
		sc := &cursor{b: b, pos: s.Off, end: s.Off + s.Len, fields: &p.Fields, strict: strict}
		switch s.Name {
		case "index":
			n, rj := sc.head("index.map", 5)
			if rj != nil {
				return nil, rj
			}
			if n > uint64(s.Len) {
				return nil, other("index: count %d exceeds data", n)
			}
			for i := uint64(0); i < n; i++ {
				u, rj := sc.str("index.url", 3)
				if rj != nil {
					return nil, rj
				}
				ie := IndexEntry{URL: string(u)}
				cnt, rj := sc.head("index["+string(u)+"].array", 4)
				if rj != nil {
					return nil, rj
				}
				if cnt > uint64(s.Len) {
					return nil, other("index: value count %d exceeds data", cnt)
				}
				rest := cnt
				if p.Version == "b1" {
					if cnt == 0 {
						return nil, other("index: empty value array")
					}
					v, rj := sc.str("index.variants-value", 2)
					if rj != nil {
						return nil, rj
					}
					ie.Variants = v
					rest = cnt - 1
					// a non-empty variants-value lists axes ("name;v1;v2, name;v1"): the entry holds
					// one location per possible key, i.e. as many as the product of the axes' value
					// counts - computed here without any bound on its size
					if want, ok := possibleKeys(string(v)); ok && (rest%2 != 0 || want.Cmp(new(big.Int).SetUint64(rest/2)) != 0) {
						return nil, listed("index entry for %q: variants-value with %s possible keys but %d location fields", u, want.String(), rest)
					}
				}
				if rest == 0 || rest%2 != 0 || (p.Version == "b2" && rest != 2) {
					return nil, other("index: value array of %d elements", cnt)
				}
				for j := uint64(0); j < rest; j += 2 {
					o, rj := sc.head("index["+string(u)+"].offset", 0)
					if rj != nil {
						return nil, rj
					}
					l, rj := sc.head("index["+string(u)+"].length", 0)
					if rj != nil {
						return nil, rj
					}
					if o > uint64(resp.Len) || l > uint64(resp.Len) || o+l > uint64(resp.Len) {
						return nil, listed("index entry for %q (offset %d, length %d) lies outside the %d-byte responses section", u, o, l, resp.Len)
					}
					ie.Locs = append(ie.Locs, Loc{o, l})
				}
				p.Index = append(p.Index, ie)
			}
			if sc.pos != sc.end {
				sc.note("index: %d trailing bytes", sc.end-sc.pos)
			}
		case "primary", "manifest":
			u, rj := sc.str(s.Name+".url", 3)
			if rj != nil {
				// "manifest" is not a section of b2 and "primary" not one of b1: a reader may
				// treat such a section as unknown and step over it, so its content binds nothing
				if (s.Name == "manifest") != (p.Version == "b1") {
					continue
				}
				return nil, rj
			}
			if s.Name == "primary" {
				p.PrimaryURL, p.HasPrimary = string(u), true
			} else {
				p.ManifestURL, p.HasManifest = string(u), true
			}
			if sc.pos != sc.end {
				sc.note("%s: %d trailing bytes", s.Name, sc.end-sc.pos)
			}
		case "signatures":
			sg, rj := parseSignatures(sc)
			if rj != nil {
				return nil, rj
			}
			p.Signatures = sg
			if sc.pos != sc.end {
				sc.note("signatures: %d trailing bytes", sc.end-sc.pos)
			}
		}
	}
	return p, nil
}

// possibleKeys returns the number of possible variant keys of a variants-value
// made of plain tokens only; ok=false (abstain) for anything else.
func possibleKeys(v string) (*big.Int, bool) {
	if v == "" {
		return nil, false
	}
	n := big.NewInt(1)
	for _, axis := range strings.Split(v, ",") {
		parts := strings.Split(strings.TrimSpace(axis), ";")
		if len(parts) < 2 {
			return nil, false
		}
		for _, p := range parts {
			p = strings.TrimSpace(p)
			if p == "" {
				return nil, false
			}
			for i := 0; i < len(p); i++ {
				ch := p[i]
				if !(ch >= 'a' && ch <= 'z' || ch >= 'A' && ch <= 'Z' || ch >= '0' && ch <= '9' || ch == '-' || ch == '_') || (i == 0 && !(ch >= 'a' && ch <= 'z' || ch >= 'A' && ch <= 'Z')) {
					return nil, false
				}
			}
		}
		n.Mul(n, big.NewInt(int64(len(parts)-1)))
	}
	return n, true
}

func parseSignatures(sc *cursor) (*Signatures, *Reject) {
	n, rj := sc.head("signatures.array", 4)
	if rj != nil {
		return nil, rj
	}
	if n != 2 {
		return nil, other("signatures: array of %d", n)
	}
	na, rj := sc.head("signatures.authorities", 4)
	if rj != nil {
		return nil, rj
	}
	sg := &Signatures{}
	if na > uint64(sc.end-sc.pos) {
		return nil, other("signatures: authorities count %d exceeds data", na)
	}
	for i := uint64(0); i < na; i++ {
		it, err := refcbor.Decode(sc.b[:sc.end], sc.pos)
		if err != nil || it.Major != 5 {
			return nil, other("signatures: authority %d: %v", i, err)
		}
		if sc.strict != nil {
			if e := refcbor.Canonical(sc.b, it); e != nil {
				sc.note("signatures: authority %d: %v", i, e)
			}
		}
		sg.Authorities = append(sg.Authorities, it.Raw(sc.b))
		sc.pos += it.Len
	}
	nv, rj := sc.head("signatures.vouched-subsets", 4)
	if rj != nil {
		return nil, rj
	}
	if nv > uint64(sc.end-sc.pos) {
		return nil, other("signatures: vouched count %d exceeds data", nv)
	}
	for i := uint64(0); i < nv; i++ {
		m, rj := sc.head("signatures.vouched.map", 5)
		if rj != nil {
			return nil, rj
		}
		if m != 3 {
			return nil, other("signatures: vouched subset map of %d", m)
		}
		var v Vouched
		var prev []byte
		for j := 0; j < 3; j++ {
			k, rj := sc.str("signatures.vouched.key", 3)
			if rj != nil {
				return nil, rj
			}
			enc := refcbor.AppendText(nil, string(k)) // canonical order is by encoded key
			if j > 0 && bytes.Compare(prev, enc) >= 0 {
				sc.note("signatures: vouched subset keys not sorted")
			}
			prev = enc
			switch string(k) {
			case "authority":
				v.Authority, rj = sc.head("signatures.vouched.authority", 0)
			case "sig":
				v.Sig, rj = sc.str("signatures.vouched.sig", 2)
			case "signed":
				v.Signed, rj = sc.str("signatures.vouched.signed", 2)
			default:
				return nil, other("signatures: unexpected key %q", k)
			}
			if rj != nil {
				return nil, rj
			}
		}
		sg.Vouched = append(sg.Vouched, v)
	}
	return sg, nil
}

// ResponsesSection returns the responses section.
func (p *Parsed) ResponsesSection() Section { return p.Sections[len(p.Sections)-1] }

// ResponseAt parses the response item that an index location designates. It
// must be exactly `[ bstr(header map), bstr(payload) ]` filling the location.
func (p *Parsed) ResponseAt(b []byte, l Loc, fields *[]Field, strict *[]string) (Response, *Reject) {
	r, rj := p.responseAt(b, l, fields, strict)
	if rj != nil && !rj.Listed && !rj.content {
		// the index location does not hold exactly one [headers, payload] item:
		// the index entry disagrees with what is in the responses section
		rj = listed("index location (offset %d, length %d) does not delimit one response: %s", l.Off, l.Len, rj.Reason)
	}
	return r, rj
}

// contentReject marks a rejection that is about the header fields' content
// rules (duplicate / upper-case names, pseudo headers, status syntax), where
// the reference and a reader may legitimately differ in strictness.
func contentReject(format string, a ...interface{}) *Reject {
	return &Reject{Reason: fmt.Sprintf(format, a...), content: true}
}

func (p *Parsed) responseAt(b []byte, l Loc, fields *[]Field, strict *[]string) (Response, *Reject) {
	rs := p.ResponsesSection()
	start := rs.Off + int(l.Off)
	sc := &cursor{b: b, pos: start, end: start + int(l.Len), fields: fields, strict: strict}
	var r Response
	n, rj := sc.head("response.array", 4)
	if rj != nil {
		return r, rj
	}
	if n != 2 {
		return r, other("response: array of %d", n)
	}
	if sc.b[start] != 0x82 {
		sc.note("response: array head not 0x82")
	}
	hb, rj := sc.str("response.headers", 2)
	if rj != nil {
		return r, rj
	}
	hstart := sc.pos - len(hb)
	hc := &cursor{b: b, pos: hstart, end: sc.pos, fields: fields, strict: strict}
	m, rj := hc.head("response.headers.map", 5)
	if rj != nil {
		return r, rj
	}
	if m > uint64(len(hb)) {
		return r, other("response: header count %d exceeds data", m)
	}
	var prevKey []byte
	seen := map[string]bool{}
	for i := uint64(0); i < m; i++ {
		kpos := hc.pos
		k, rj := hc.str("response.header.name", 2)
		if rj != nil {
			return r, rj
		}
		v, rj := hc.str("response.header.value", 2)
		if rj != nil {
			return r, rj
		}
		kraw := b[kpos : kpos+(hc.pos-kpos)-len(v)]
		_ = kraw
		enc := refcbor.AppendBytes(nil, k)
		if prevKey != nil && bytes.Compare(prevKey, enc) >= 0 {
			hc.note("response: header map keys not strictly ascending")
		}
		prevKey = enc
		name := string(k)
		if seen[name] {
			return r, contentReject("response: duplicate header %q", name)
		}
		seen[name] = true
		if name != strings.ToLower(name) {
			return r, contentReject("response: header name %q not lower case", name)
		}
		if strings.HasPrefix(name, ":") {
			if name != ":status" {
				return r, contentReject("response: unknown pseudo header %q", name)
			}
			r.Status = string(v)
			continue
		}
		r.Headers = append(r.Headers, [2]string{name, string(v)})
	}
	if hc.pos != hc.end {
		hc.note("response: %d trailing bytes in header map", hc.end-hc.pos)
	}
	if r.Status == "" && !seen[":status"] {
		return r, contentReject("response: missing :status")
	}
	if len(r.Status) != 3 || strings.Trim(r.Status, "0123456789") != "" {
		// (a status is three decimal digits: anything else states no status code at all,
		// so whatever number a reader would return for it is not in the file)
		return r, listed("response: :status %q is not three decimal digits", r.Status)
	}
	body, rj := sc.str("response.body", 2)
	if rj != nil {
		return r, rj
	}
	r.Body = body
	if sc.pos != sc.end {
		return r, other("response: %d bytes left inside the index location", sc.end-sc.pos)
	}
	return r, nil
}

// Extract returns the exchanges in index order (b1 variant sets flattened in
// file order, as the format lists them).
func Extract(b []byte) (*Parsed, []Exchange, *Reject) {
	p, rj := Parse(b)
	if rj != nil {
		return nil, nil, rj
	}
	var xs []Exchange
	for _, ie := range p.Index {
		for _, l := range ie.Locs {
			r, rj := p.ResponseAt(b, l, &p.Fields, nil)
			if rj != nil {
				return p, nil, rj
			}
			xs = append(xs, Exchange{URL: ie.URL, Response: r})
		}
	}
	return p, xs, nil
}

// Strict is the C04 judgement: nil iff b is a well-formed, canonical,
// self-consistent bundle of its version.
func Strict(b []byte) error {
	var notes []string
	p, rj := parse(b, &notes)
	if rj != nil {
		return rj
	}
	if len(notes) > 0 {
		return errors.New(notes[0])
	}
	// the section table tiles the file exactly up to the footer
	if !p.HasFooter {
		return fmt.Errorf("sections end at %d, file is %d bytes: no 9-byte footer (0x48 + length) right after the last section", p.FooterOff, len(b))
	}
	if p.FooterValue != uint64(len(b)) {
		return fmt.Errorf("trailing length %d, file size %d", p.FooterValue, len(b))
	}
	known := map[string]bool{"index": true, "responses": true, "signatures": true}
	if p.Version == "b1" {
		known["manifest"] = true
	} else {
		known["primary"] = true
	}
	hasIndex := false
	for _, s := range p.Sections {
		if !known[s.Name] {
			return fmt.Errorf("section %q not defined for version %s", s.Name, p.Version)
		}
		if s.Name == "index" {
			hasIndex = true
		}
	}
	if !hasIndex {
		return errors.New("no index section")
	}
	// canonical form of every section and of the section table
	for _, s := range p.Sections {
		items, err := refcbor.DecodeAll(b[s.Off : s.Off+s.Len])
		if err != nil {
			return fmt.Errorf("section %q: %v", s.Name, err)
		}
		if len(items) != 1 {
			return fmt.Errorf("section %q holds %d top-level items", s.Name, len(items))
		}
		if err := refcbor.Canonical(b[s.Off:s.Off+s.Len], items[0]); err != nil {
			return fmt.Errorf("section %q: %v", s.Name, err)
		}
	}
	// responses: array(n) of [bstr, bstr] exactly filling the section
	rs := p.ResponsesSection()
	rb := b[rs.Off : rs.Off+rs.Len]
	arr, err := refcbor.Decode(rb, 0)
	if err != nil || arr.Major != 4 || arr.Len != len(rb) {
		return fmt.Errorf("responses section is not one array filling the section: %v", err)
	}
	bounds := map[Loc]bool{}
	for _, e := range arr.Elems {
		if e.Major != 4 || len(e.Elems) != 2 || e.Elems[0].Major != 2 || e.Elems[1].Major != 2 {
			return fmt.Errorf("responses element at %d is not [bstr, bstr]", e.Off)
		}
		bounds[Loc{uint64(e.Off), uint64(e.Len)}] = true
		// the header bytes are themselves a canonical map of bstr -> bstr
		hm, err := refcbor.DecodeAll(e.Elems[0].Bytes)
		if err != nil || len(hm) != 1 || hm[0].Major != 5 {
			return fmt.Errorf("response headers at %d are not one CBOR map: %v", e.Off, err)
		}
		if err := refcbor.Canonical(e.Elems[0].Bytes, hm[0]); err != nil {
			return fmt.Errorf("response headers at %d: %v", e.Off, err)
		}
	}
	for _, ie := range p.Index {
		for _, l := range ie.Locs {
			if !bounds[l] {
				return fmt.Errorf("index entry for %q (offset %d, length %d) does not delimit exactly one element of the responses array", ie.URL, l.Off, l.Len)
			}
			var n2 []string
			if _, rj := p.ResponseAt(b, l, nil, &n2); rj != nil {
				return fmt.Errorf("index entry for %q: %v", ie.URL, rj)
			}
			if len(n2) > 0 {
				return fmt.Errorf("index entry for %q: %s", ie.URL, n2[0])
			}
		}
	}
	// the section-lengths byte string is one canonical array
	return nil
}

// ---- writer (used by the Byzantine re-encoder) --------------------------------

type RawSection struct {
	Name string
	Data []byte
	Decl *uint64 // declared length in the section table, if it is to differ from len(Data)
}

// Build serializes a bundle from raw sections.
func Build(version, primaryURL string, secs []RawSection) []byte {
	var out []byte
	if version == "b1" {
		out = append(out, magicB1...)
		out = refcbor.AppendText(out, primaryURL)
	} else {
		out = append(out, magicB2...)
	}
	var tbl []byte
	tbl = refcbor.AppendArray(tbl, 2*len(secs))
	for _, s := range secs {
		tbl = refcbor.AppendText(tbl, s.Name)
		if s.Decl != nil {
			tbl = refcbor.AppendUint(tbl, *s.Decl)
		} else {
			tbl = refcbor.AppendUint(tbl, uint64(len(s.Data)))
		}
	}
	out = refcbor.AppendBytes(out, tbl)
	out = refcbor.AppendArray(out, len(secs))
	for _, s := range secs {
		out = append(out, s.Data...)
	}
	var l [8]byte
	binary.BigEndian.PutUint64(l[:], uint64(len(out)+9))
	return refcbor.AppendBytes(out, l[:])
}

// EncodeIndex serializes an index section (canonical map).
func EncodeIndex(version string, entries []IndexEntry) []byte {
	var kvs []refcbor.KV
	for _, e := range entries {
		n := 2 * len(e.Locs)
		var v []byte
		if version == "b1" {
			v = refcbor.AppendArray(v, n+1)
			v = refcbor.AppendBytes(v, e.Variants)
		} else {
			v = refcbor.AppendArray(v, n)
		}
		for _, l := range e.Locs {
			v = refcbor.AppendUint(v, l.Off)
			v = refcbor.AppendUint(v, l.Len)
		}
		kvs = append(kvs, refcbor.KV{K: refcbor.AppendText(nil, e.URL), V: v})
	}
	return refcbor.AppendMap(nil, kvs)
}

// RawSections cuts a parsed bundle into its raw sections.
func (p *Parsed) RawSections(b []byte) []RawSection {
	var rs []RawSection
	for _, s := range p.Sections {
		rs = append(rs, RawSection{Name: s.Name, Data: append([]byte(nil), b[s.Off:s.Off+s.Len]...)})
	}
	return rs
}
