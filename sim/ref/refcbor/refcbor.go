// Package refcbor is an independent model of the definite-length subset of
// CBOR (RFC 8949): a decoder with exact byte accounting, a checker for core
// deterministic form, and a small encoder. It shares no code with the
// repository.
package refcbor

import (
	"bytes"
	"encoding/binary"
	"errors"
	"fmt"
	"unicode/utf8"
)

// Item is a decoded data item together with where it sat in the input.
type Item struct {
	Major   int    // 0..7
	AI      int    // additional information 0..27
	Arg     uint64 // argument (value, length or count)
	Off     int    // offset of the initial byte
	HeadLen int    // 1, 2, 3, 5 or 9
	Len     int    // total encoded length of the item
	Bytes   []byte // content of byte/text strings (aliases the input)
	Elems   []Item // array elements; map: k0,v0,k1,v1,...; tag: the tagged item
}

var (
	ErrTruncated  = errors.New("refcbor: truncated item")
	ErrReserved   = errors.New("refcbor: reserved additional information 28-30")
	ErrIndefinite = errors.New("refcbor: indefinite length (additional information 31)")
	ErrDepth      = errors.New("refcbor: nesting too deep")
	ErrTooLong    = errors.New("refcbor: declared length exceeds the remaining input")
)

// Head decodes one head at off.
func Head(b []byte, off int) (major, ai int, arg uint64, headLen int, err error) {
	if off >= len(b) {
		return 0, 0, 0, 0, ErrTruncated
	}
	ib := b[off]
	major, ai = int(ib>>5), int(ib&0x1f)
	switch {
	case ai < 24:
		return major, ai, uint64(ai), 1, nil
	case ai == 24:
		if off+2 > len(b) {
			return major, ai, 0, 0, ErrTruncated
		}
		return major, ai, uint64(b[off+1]), 2, nil
	case ai == 25:
		if off+3 > len(b) {
			return major, ai, 0, 0, ErrTruncated
		}
		return major, ai, uint64(binary.BigEndian.Uint16(b[off+1:])), 3, nil
	case ai == 26:
		if off+5 > len(b) {
			return major, ai, 0, 0, ErrTruncated
		}
		return major, ai, uint64(binary.BigEndian.Uint32(b[off+1:])), 5, nil
	case ai == 27:
		if off+9 > len(b) {
			return major, ai, 0, 0, ErrTruncated
		}
		return major, ai, binary.BigEndian.Uint64(b[off+1:]), 9, nil
	case ai == 31:
		return major, ai, 0, 0, ErrIndefinite
	}
	return major, ai, 0, 0, ErrReserved
}

// Decode decodes one complete definite-length item at off.
func Decode(b []byte, off int) (Item, error) { return decode(b, off, 0) }

func decode(b []byte, off, depth int) (Item, error) {
	if depth > 48 {
		return Item{}, ErrDepth
	}
	major, ai, arg, hl, err := Head(b, off)
	if err != nil {
		return Item{Major: major, AI: ai, Off: off}, err
	}
	it := Item{Major: major, AI: ai, Arg: arg, Off: off, HeadLen: hl, Len: hl}
	switch major {
	case 0, 1, 7:
		return it, nil
	case 2, 3:
		if arg > uint64(len(b)-off-hl) {
			return it, ErrTooLong
		}
		it.Bytes = b[off+hl : off+hl+int(arg)]
		it.Len = hl + int(arg)
		return it, nil
	case 4, 5, 6:
		n := arg
		if major == 5 {
			if arg > uint64(len(b)) {
				return it, ErrTooLong
			}
			n = 2 * arg
		}
		if major == 6 {
			n = 1
		}
		if n > uint64(len(b)-off-hl) { // every element takes at least one byte
			return it, ErrTooLong
		}
		pos := off + hl
		for i := uint64(0); i < n; i++ {
			e, err := decode(b, pos, depth+1)
			if err != nil {
				return it, err
			}
			it.Elems = append(it.Elems, e)
			pos += e.Len
		}
		it.Len = pos - off
		return it, nil
	}
	return it, fmt.Errorf("refcbor: unreachable")
}

// DecodeAll decodes a sequence of items covering b exactly.
func DecodeAll(b []byte) ([]Item, error) {
	var items []Item
	for pos := 0; pos < len(b); {
		it, err := Decode(b, pos)
		if err != nil {
			return items, err
		}
		items = append(items, it)
		pos += it.Len
	}
	return items, nil
}

// ShortestHead reports whether the item's own head is in shortest form.
func (it Item) ShortestHead() bool {
	if it.Major == 7 {
		return true // simple values / floats: not length-carrying
	}
	switch it.HeadLen {
	case 1:
		return true
	case 2:
		return it.Arg >= 24
	case 3:
		return it.Arg >= 1<<8
	case 5:
		return it.Arg >= 1<<16
	case 9:
		return it.Arg >= 1<<32
	}
	return false
}

// Raw returns the item's encoded bytes within b.
func (it Item) Raw(b []byte) []byte { return b[it.Off : it.Off+it.Len] }

// Canonical checks RFC 8949 core deterministic form recursively: shortest
// heads, valid UTF-8 text, map keys strictly ascending in bytewise order of
// their encodings (which also excludes duplicates).
func Canonical(b []byte, it Item) error {
	if !it.ShortestHead() {
		return fmt.Errorf("refcbor: non-shortest head at offset %d (major %d arg %d in %d bytes)", it.Off, it.Major, it.Arg, it.HeadLen)
	}
	if it.Major == 3 && !utf8.Valid(it.Bytes) {
		return fmt.Errorf("refcbor: invalid UTF-8 in text string at offset %d", it.Off)
	}
	for _, e := range it.Elems {
		if err := Canonical(b, e); err != nil {
			return err
		}
	}
	if it.Major == 5 {
		for i := 2; i < len(it.Elems); i += 2 {
			prev, cur := it.Elems[i-2].Raw(b), it.Elems[i].Raw(b)
			if bytes.Compare(prev, cur) >= 0 {
				return fmt.Errorf("refcbor: map keys out of order or duplicated at offset %d", it.Elems[i].Off)
			}
		}
	}
	return nil
}

// ---- encoder ----------------------------------------------------------------

// AppendHead appends the shortest head.
func AppendHead(dst []byte, major int, arg uint64) []byte {
	m := byte(major << 5)
	switch {
	case arg < 24:
		return append(dst, m|byte(arg))
	case arg < 1<<8:
		return append(dst, m|24, byte(arg))
	case arg < 1<<16:
		return append(dst, m|25, byte(arg>>8), byte(arg))
	case arg < 1<<32:
		return append(dst, m|26, byte(arg>>24), byte(arg>>16), byte(arg>>8), byte(arg))
	}
	var t [8]byte
	binary.BigEndian.PutUint64(t[:], arg)
	return append(append(dst, m|27), t[:]...)
}

// AppendHeadSized appends a head with a forced argument width (0,1,2,4,8).
func AppendHeadSized(dst []byte, major int, arg uint64, width int) []byte {
	m := byte(major << 5)
	switch width {
	case 0:
		return append(dst, m|byte(arg&0x1f))
	case 1:
		return append(dst, m|24, byte(arg))
	case 2:
		return append(dst, m|25, byte(arg>>8), byte(arg))
	case 4:
		return append(dst, m|26, byte(arg>>24), byte(arg>>16), byte(arg>>8), byte(arg))
	}
	var t [8]byte
	binary.BigEndian.PutUint64(t[:], arg)
	return append(append(dst, m|27), t[:]...)
}

func AppendUint(dst []byte, v uint64) []byte   { return AppendHead(dst, 0, v) }
func AppendBytes(dst, s []byte) []byte         { return append(AppendHead(dst, 2, uint64(len(s))), s...) }
func AppendText(dst []byte, s string) []byte   { return append(AppendHead(dst, 3, uint64(len(s))), s...) }
func AppendArray(dst []byte, n int) []byte     { return AppendHead(dst, 4, uint64(n)) }
func AppendMapHeader(dst []byte, n int) []byte { return AppendHead(dst, 5, uint64(n)) }

// KV is an already-encoded map entry.
type KV struct{ K, V []byte }

// AppendMap appends a canonical map (entries sorted by encoded key).
func AppendMap(dst []byte, kvs []KV) []byte {
	s := append([]KV(nil), kvs...)
	for i := 1; i < len(s); i++ { // insertion sort: no dependence on sort package behaviour
		for j := i; j > 0 && bytes.Compare(s[j-1].K, s[j].K) > 0; j-- {
			s[j-1], s[j] = s[j], s[j-1]
		}
	}
	dst = AppendMapHeader(dst, len(s))
	for _, e := range s {
		dst = append(append(dst, e.K...), e.V...)
	}
	return dst
}
