// Package refib is an independent model of the Web Bundle integrity block
// (explainers/integrity-signature.md): block structure, data-to-be-signed and
// Web Bundle ID. No code shared with the repository.
package refib

import (
	"encoding/binary"
	"errors"
	"strings"

	"verifsim/ref/refcbor"
)

var Magic = []byte{0xf0, 0x9f, 0x96, 0x8b, 0xf0, 0x9f, 0x93, 0xa6} // 🖋📦
var Version = []byte{'1', 'b', 0, 0}

// Sig is one entry of the signature stack.
type Sig struct {
	Attrs     map[string][]byte
	Signature []byte
}

// EncodeAttrs is the canonical CBOR map tstr -> bstr.
func EncodeAttrs(a map[string][]byte) []byte {
	var kvs []refcbor.KV
	for k, v := range a {
		kvs = append(kvs, refcbor.KV{K: refcbor.AppendText(nil, k), V: refcbor.AppendBytes(nil, v)})
	}
	return refcbor.AppendMap(nil, kvs) // AppendMap sorts by encoded key: iteration order is irrelevant
}

// EncodeBlock serializes [magic, version, [[attrs, sig]...]].
func EncodeBlock(stack []Sig) []byte {
	out := refcbor.AppendArray(nil, 3)
	out = refcbor.AppendBytes(out, Magic)
	out = refcbor.AppendBytes(out, Version)
	out = refcbor.AppendArray(out, len(stack))
	for _, s := range stack {
		out = refcbor.AppendArray(out, 2)
		out = append(out, EncodeAttrs(s.Attrs)...)
		out = refcbor.AppendBytes(out, s.Signature)
	}
	return out
}

// DataToBeSigned = len|hash, len|block, len|attributes (8-byte big-endian lengths).
func DataToBeSigned(hash, block, attrs []byte) []byte {
	var out []byte
	for _, p := range [][]byte{hash, block, attrs} {
		var l [8]byte
		binary.BigEndian.PutUint64(l[:], uint64(len(p)))
		out = append(append(out, l[:]...), p...)
	}
	return out
}

// DecodeBlock parses block bytes; it requires the exact shape and canonical form.
func DecodeBlock(b []byte) ([]Sig, int, error) {
	it, err := refcbor.Decode(b, 0)
	if err != nil {
		return nil, 0, err
	}
	if err := refcbor.Canonical(b, it); err != nil {
		return nil, 0, err
	}
	if it.Major != 4 || len(it.Elems) != 3 || it.Elems[0].Major != 2 || it.Elems[1].Major != 2 || it.Elems[2].Major != 4 {
		return nil, 0, errors.New("refib: not [bstr, bstr, array]")
	}
	if string(it.Elems[0].Bytes) != string(Magic) || string(it.Elems[1].Bytes) != string(Version) {
		return nil, 0, errors.New("refib: wrong magic or version")
	}
	var stack []Sig
	for _, e := range it.Elems[2].Elems {
		if e.Major != 4 || len(e.Elems) != 2 || e.Elems[0].Major != 5 || e.Elems[1].Major != 2 {
			return nil, 0, errors.New("refib: signature entry is not [map, bstr]")
		}
		s := Sig{Attrs: map[string][]byte{}, Signature: e.Elems[1].Bytes}
		m := e.Elems[0]
		for i := 0; i+1 < len(m.Elems); i += 2 {
			if m.Elems[i].Major != 3 || m.Elems[i+1].Major != 2 {
				return nil, 0, errors.New("refib: attribute is not tstr: bstr")
			}
			s.Attrs[string(m.Elems[i].Bytes)] = m.Elems[i+1].Bytes
		}
		stack = append(stack, s)
	}
	return stack, it.Len, nil
}

// WebBundleID is the lower-case unpadded RFC 4648 base32 of key || 00 01 02.
func WebBundleID(key []byte) string {
	data := append(append([]byte{}, key...), 0, 1, 2)
	const alphabet = "abcdefghijklmnopqrstuvwxyz234567"
	var sb strings.Builder
	var acc uint
	bits := 0
	for _, b := range data {
		acc = acc<<8 | uint(b)
		bits += 8
		for bits >= 5 {
			sb.WriteByte(alphabet[(acc>>(uint(bits)-5))&31])
			bits -= 5
		}
	}
	if bits > 0 {
		sb.WriteByte(alphabet[(acc<<(5-uint(bits)))&31])
	}
	return sb.String()
}
