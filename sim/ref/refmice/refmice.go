// Package refmice is an independent model of Merkle Integrity Content Encoding
// (draft-thomson-http-mice-02 / -03), written from the drafts' recursive
// definition. It shares no code with the repository and works on whole byte
// strings (it is an oracle, not a streaming codec).
//
//	proof(last)  = SHA-256(record_last || 0x00)
//	proof(i)     = SHA-256(record_i || proof(i+1) || 0x01)
//	stream       = uint64be(rs) || record_0 || proof(1) || record_1 || ... || record_last
//	header       = "<name>=" base64(proof(0))
package refmice

import (
	"bytes"
	"crypto/sha256"
	"encoding/base64"
	"encoding/binary"
	"strings"
)

type Draft int

const (
	Draft02 Draft = 2
	Draft03 Draft = 3
)

func (d Draft) Name() string {
	if d == Draft02 {
		return "mi-sha256-draft2"
	}
	return "mi-sha256-03"
}

func (d Draft) HeaderName() string {
	if d == Draft02 {
		return "MI-Draft2"
	}
	return "Digest"
}

func (d Draft) b64() *base64.Encoding {
	if d == Draft02 {
		return base64.RawURLEncoding
	}
	return base64.StdEncoding
}

func hashLast(rec []byte) []byte {
	h := sha256.Sum256(append(append([]byte{}, rec...), 0))
	return h[:]
}

func hashMid(rec, next []byte) []byte {
	b := append(append(append([]byte{}, rec...), next...), 1)
	h := sha256.Sum256(b)
	return h[:]
}

// split cuts payload into records of rs bytes per the draft: every record is
// rs bytes except the last, which holds the remaining 1..rs bytes; an empty
// payload is the special case handled by the callers.
func split(payload []byte, rs int) [][]byte {
	var recs [][]byte
	for len(payload) > rs {
		recs = append(recs, payload[:rs])
		payload = payload[rs:]
	}
	return append(recs, payload)
}

// proofFrom is the recursive definition: the proof of record i.
func proofFrom(recs [][]byte, i int) []byte {
	if i == len(recs)-1 {
		return hashLast(recs[i])
	}
	return hashMid(recs[i], proofFrom(recs, i+1))
}

// Encode returns the header value and the encoded stream.
func Encode(d Draft, payload []byte, rs int) (string, []byte) {
	if len(payload) == 0 {
		top := hashLast(nil)
		if d == Draft03 {
			return d.Name() + "=" + d.b64().EncodeToString(top), []byte{}
		}
		var hdr [8]byte
		binary.BigEndian.PutUint64(hdr[:], uint64(rs))
		return d.Name() + "=" + d.b64().EncodeToString(top), hdr[:]
	}
	recs := split(payload, rs)
	// iterative evaluation of the recursive definition (deep recursion on
	// rs=1 payloads would be quadratic): proofs[i] = proofFrom(recs, i)
	proofs := make([][]byte, len(recs))
	for i := len(recs) - 1; i >= 0; i-- {
		if i == len(recs)-1 {
			proofs[i] = hashLast(recs[i])
		} else {
			proofs[i] = hashMid(recs[i], proofs[i+1])
		}
	}
	var out bytes.Buffer
	var hdr [8]byte
	binary.BigEndian.PutUint64(hdr[:], uint64(rs))
	out.Write(hdr[:])
	for i, r := range recs {
		if i > 0 {
			out.Write(proofs[i])
		}
		out.Write(r)
	}
	return d.Name() + "=" + d.b64().EncodeToString(proofs[0]), out.Bytes()
}

// ParseHeader extracts the 32-byte top-level proof, or ok=false.
func ParseHeader(d Draft, v string) ([]byte, bool) {
	i := strings.IndexByte(v, '=')
	if i < 0 || v[:i] != d.Name() {
		return nil, false
	}
	p, err := d.b64().DecodeString(v[i+1:])
	if err != nil || len(p) != 32 {
		return nil, false
	}
	return p, true
}

// Result of the verifying prefix decoder.
type Result struct {
	HeaderOK bool   // record-size header present and 1 <= rs <= maxRS
	RS       uint64 // parsed record size (if 8 bytes were present)
	Prefix   []byte // longest authenticated prefix of the committed payload
	Complete bool   // the whole stream authenticates as a complete payload
	Frames   []Frame
}

// Frame locates one record (and the proof that follows it) in the stream.
type Frame struct{ RecOff, RecLen, ProofOff int } // ProofOff -1 for the last

// Decode authenticates stream against top. It is deliberately the most
// lenient reading of both drafts (an empty final record is accepted in either
// draft), so that it can serve as a safety oracle: anything a correct decoder
// releases must be inside Prefix.
func Decode(d Draft, stream []byte, top []byte, maxRS uint64) Result {
	var res Result
	if len(stream) == 0 {
		if d == Draft03 && bytes.Equal(hashLast(nil), top) {
			res.HeaderOK, res.Complete = true, true
		}
		return res
	}
	if len(stream) < 8 {
		return res
	}
	rs := binary.BigEndian.Uint64(stream[:8])
	res.RS = rs
	if rs == 0 || rs > maxRS {
		return res
	}
	res.HeaderOK = true
	cur := append([]byte{}, top...)
	pos := 8
	for {
		rest := stream[pos:]
		if uint64(len(rest)) >= rs+32 {
			rec, next := rest[:rs], rest[rs:rs+32]
			if !bytes.Equal(hashMid(rec, next), cur) {
				return res
			}
			res.Frames = append(res.Frames, Frame{pos, int(rs), pos + int(rs)})
			res.Prefix = append(res.Prefix, rec...)
			cur = append(cur[:0], next...)
			pos += int(rs) + 32
			continue
		}
		if uint64(len(rest)) > rs {
			return res // ends in the middle of a proof
		}
		if !bytes.Equal(hashLast(rest), cur) {
			return res
		}
		res.Frames = append(res.Frames, Frame{pos, len(rest), -1})
		res.Prefix = append(res.Prefix, rest...)
		res.Complete = true
		return res
	}
}

// Layout returns the frames of an honest stream produced by Encode.
func Layout(streamLen int, rs int) []Frame {
	var fs []Frame
	pos := 8
	for pos < streamLen || len(fs) == 0 {
		if streamLen-pos > rs {
			fs = append(fs, Frame{pos, rs, pos + rs})
			pos += rs + 32
		} else {
			fs = append(fs, Frame{pos, streamLen - pos, -1})
			break
		}
	}
	return fs
}
