//go:build verif

// Package verifyield exists only in verification builds (overlay, tag verif).
// Instrumented copies of the library sources (made by sim/cmd/yieldgen for one
// test binary only) call Yield at function entries and loop heads; the
// simulation's cooperative scheduler installs Hook to park the running task
// there. With Hook nil — always, outside that one binary — Yield is a no-op.
package verifyield

var Hook func(site int)

func Yield(site int) {
	if h := Hook; h != nil {
		h(site)
	}
}
