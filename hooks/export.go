//go:build verif

// Package verifhook exists only in verification builds (build tag "verif",
// injected with `go test -overlay`; it is never written into the repository
// tree). It re-exports internal packages so that the simulation harness, which
// lives in another module, can drive them through their real code.
package verifhook

import (
	"github.com/WICG/webpackage/go/internal/cbor"
	"github.com/WICG/webpackage/go/internal/signingalgorithm"
)

type (
	CborEncoder         = cbor.Encoder
	CborDecoder         = cbor.Decoder
	CborMapEntryEncoder = cbor.MapEntryEncoder
	CborType            = cbor.Type
	SigningAlgorithm    = signingalgorithm.SigningAlgorithm
	Verifier            = signingalgorithm.Verifier
)

var (
	NewCborEncoder                = cbor.NewEncoder
	NewCborDecoder                = cbor.NewDecoder
	NewCborMapEntry               = cbor.NewMapEntry
	GenerateCborMapEntry          = cbor.GenerateMapEntry
	CborDeterministic             = cbor.Deterministic
	ErrInvalidUTF8                = cbor.ErrInvalidUTF8
	SigningAlgorithmForPrivateKey = signingalgorithm.SigningAlgorithmForPrivateKey
	VerifierForPublicKey          = signingalgorithm.VerifierForPublicKey
	ParseCertificates             = signingalgorithm.ParseCertificates
	ParsePrivateKey               = signingalgorithm.ParsePrivateKey
	ParsePublicKey                = signingalgorithm.ParsePublicKey
)
