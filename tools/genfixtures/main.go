// genfixtures creates the committed key/certificate fixtures used by the
// simulation worlds. Run once (go run ./tools/genfixtures <outdir>); the
// output is committed so that runs never depend on runtime key generation
// (Go's key generation and ECDSA signing deliberately consume a
// non-deterministic amount of randomness).
package main

import (
	"crypto/ecdsa"
	"crypto/ed25519"
	"crypto/rsa"
	"crypto/elliptic"
	"crypto/rand"
	"crypto/x509"
	"crypto/x509/pkix"
	"encoding/pem"
	"fmt"
	"math/big"
	"os"
	"path/filepath"
	"time"
)

type leaf struct {
	name  string
	curve elliptic.Curve
	hosts []string
	pad   int // extra bytes in the subject to vary certificate size
}

// extra adds leaves issued by CAs of other key types (run: genfixtures <outdir> extra);
// the original fixtures are left untouched.
func extra(out string) {
	rsaKey, err := rsa.GenerateKey(rand.Reader, 2048)
	if err != nil {
		panic(err)
	}
	edPub, edKey, _ := ed25519.GenerateKey(rand.Reader)
	cas := []struct {
		name string
		pub  interface{}
		key  interface{}
	}{{"ca-rsa", &rsaKey.PublicKey, rsaKey}, {"ca-ed25519", edPub, edKey}}
	leaves := []leaf{
		{"e-p256", elliptic.P256(), []string{"fifth.example"}, 0},
		{"f-p384", elliptic.P384(), []string{"sixth.example"}, 20},
	}
	for i, ca := range cas {
		caT := &x509.Certificate{
			SerialNumber: big.NewInt(int64(2 + i)), Subject: pkix.Name{CommonName: "verif sim " + ca.name},
			NotBefore: time.Unix(1500000000, 0), NotAfter: time.Unix(4000000000, 0),
			IsCA: true, BasicConstraintsValid: true, KeyUsage: x509.KeyUsageCertSign,
		}
		caDER, err := x509.CreateCertificate(rand.Reader, caT, caT, ca.pub, ca.key)
		if err != nil {
			panic(err)
		}
		writePEM(filepath.Join(out, ca.name+".cert.pem"), "CERTIFICATE", caDER)
		l := leaves[i]
		k, _ := ecdsa.GenerateKey(l.curve, rand.Reader)
		pad := make([]byte, l.pad)
		for j := range pad {
			pad[j] = 'x'
		}
		t := &x509.Certificate{
			SerialNumber: big.NewInt(int64(200 + i)), Subject: pkix.Name{CommonName: l.hosts[0], Organization: []string{"verif" + string(pad)}},
			NotBefore: time.Unix(1500000000, 0), NotAfter: time.Unix(4000000000, 0),
			DNSNames: l.hosts, KeyUsage: x509.KeyUsageDigitalSignature,
		}
		der, err := x509.CreateCertificate(rand.Reader, t, caT, &k.PublicKey, ca.key)
		if err != nil {
			panic(err)
		}
		writePEM(filepath.Join(out, l.name+".cert.pem"), "CERTIFICATE", der)
		kd, _ := x509.MarshalECPrivateKey(k)
		writePEM(filepath.Join(out, l.name+".key.pem"), "EC PRIVATE KEY", kd)
		fmt.Println(l.name, len(der), "issued by", ca.name, len(caDER))
	}
}

// odd adds self-signed certificates whose keys are of kinds the formats do not use
// (run: genfixtures <outdir> odd). Only the certificates are kept.
func odd(out string) {
	p521, _ := ecdsa.GenerateKey(elliptic.P521(), rand.Reader)
	p224, _ := ecdsa.GenerateKey(elliptic.P224(), rand.Reader)
	rsaKey, _ := rsa.GenerateKey(rand.Reader, 2048)
	edPub, edKey, _ := ed25519.GenerateKey(rand.Reader)
	for i, k := range []struct {
		name string
		pub  interface{}
		key  interface{}
	}{{"odd-p521", &p521.PublicKey, p521}, {"odd-p224", &p224.PublicKey, p224}, {"odd-rsa", &rsaKey.PublicKey, rsaKey}, {"odd-ed25519", edPub, edKey}} {
		t := &x509.Certificate{
			SerialNumber: big.NewInt(int64(300 + i)), Subject: pkix.Name{CommonName: "example.com"},
			NotBefore: time.Unix(1500000000, 0), NotAfter: time.Unix(4000000000, 0),
			DNSNames: []string{"example.com", "fifth.example"}, KeyUsage: x509.KeyUsageDigitalSignature,
		}
		der, err := x509.CreateCertificate(rand.Reader, t, t, k.pub, k.key)
		if err != nil {
			fmt.Println(k.name, "skipped:", err)
			continue
		}
		writePEM(filepath.Join(out, k.name+".cert.pem"), "CERTIFICATE", der)
		fmt.Println(k.name, len(der))
	}
}

// sctext adds a self-signed P-256 leaf that carries the embedded-SCT-list X.509
// extension 1.3.6.1.4.1.11129.2.4.2 (run: genfixtures <outdir> sctext).
func sctext(out string) {
	k, _ := ecdsa.GenerateKey(elliptic.P256(), rand.Reader)
	t := &x509.Certificate{
		SerialNumber: big.NewInt(400), Subject: pkix.Name{CommonName: "seventh.example"},
		NotBefore: time.Unix(1500000000, 0), NotAfter: time.Unix(4000000000, 0),
		DNSNames: []string{"seventh.example"}, KeyUsage: x509.KeyUsageDigitalSignature,
		ExtraExtensions: []pkix.Extension{{Id: []int{1, 3, 6, 1, 4, 1, 11129, 2, 4, 2}, Value: []byte{0x04, 0x06, 0x00, 0x04, 0x00, 0x02, 0xab, 0xcd}}},
	}
	der, err := x509.CreateCertificate(rand.Reader, t, t, &k.PublicKey, k)
	if err != nil {
		panic(err)
	}
	writePEM(filepath.Join(out, "g-p256.cert.pem"), "CERTIFICATE", der)
	kd, _ := x509.MarshalECPrivateKey(k)
	writePEM(filepath.Join(out, "g-p256.key.pem"), "EC PRIVATE KEY", kd)
	fmt.Println("g-p256", len(der))
}

func main() {
	out := os.Args[1]
	if len(os.Args) > 2 && os.Args[2] == "sctext" {
		sctext(out)
		return
	}
	if len(os.Args) > 2 && os.Args[2] == "odd" {
		odd(out)
		return
	}
	if len(os.Args) > 2 && os.Args[2] == "extra" {
		extra(out)
		return
	}
	caKey, _ := ecdsa.GenerateKey(elliptic.P256(), rand.Reader)
	caT := &x509.Certificate{
		SerialNumber: big.NewInt(1), Subject: pkix.Name{CommonName: "verif sim CA"},
		NotBefore: time.Unix(1500000000, 0), NotAfter: time.Unix(4000000000, 0),
		IsCA: true, BasicConstraintsValid: true, KeyUsage: x509.KeyUsageCertSign,
	}
	caDER, err := x509.CreateCertificate(rand.Reader, caT, caT, &caKey.PublicKey, caKey)
	if err != nil {
		panic(err)
	}
	writePEM(filepath.Join(out, "ca.cert.pem"), "CERTIFICATE", caDER)
	leaves := []leaf{
		{"a-p256", elliptic.P256(), []string{"example.com", "www.example.com"}, 0},
		{"a2-p256", elliptic.P256(), []string{"example.com"}, 0},
		{"b-p384", elliptic.P384(), []string{"other.test", "example.com"}, 40},
		{"c-p256", elliptic.P256(), []string{"third.example", "*.wild.example"}, 300},
		{"d-p384", elliptic.P384(), []string{"fourth.example"}, 0},
	}
	for i, l := range leaves {
		k, _ := ecdsa.GenerateKey(l.curve, rand.Reader)
		pad := make([]byte, l.pad)
		for j := range pad {
			pad[j] = 'x'
		}
		t := &x509.Certificate{
			SerialNumber: big.NewInt(int64(100 + i)), Subject: pkix.Name{CommonName: l.hosts[0], Organization: []string{"verif" + string(pad)}},
			NotBefore: time.Unix(1500000000, 0), NotAfter: time.Unix(4000000000, 0),
			DNSNames: l.hosts, KeyUsage: x509.KeyUsageDigitalSignature,
		}
		der, err := x509.CreateCertificate(rand.Reader, t, caT, &k.PublicKey, caKey)
		if err != nil {
			panic(err)
		}
		writePEM(filepath.Join(out, l.name+".cert.pem"), "CERTIFICATE", der)
		kd, _ := x509.MarshalECPrivateKey(k)
		writePEM(filepath.Join(out, l.name+".key.pem"), "EC PRIVATE KEY", kd)
		fmt.Println(l.name, len(der))
	}
}

func writePEM(path, typ string, der []byte) {
	f, err := os.Create(path)
	if err != nil {
		panic(err)
	}
	defer f.Close()
	pem.Encode(f, &pem.Block{Type: typ, Bytes: der})
}
