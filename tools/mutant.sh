#!/bin/bash
# usage: tools/mutant.sh <name> <python-edit-script-file> <prop> [<prop>...]
# Applies an edit to a scratch worktree of /repo, checks that it builds and
# passes the baseline tests, runs the given quick checks against it, removes it.
name=$1; edit=$2; shift 2
d=/tmp/mut-$name
export GOFLAGS=-mod=mod GOPROXY=off GOSUMDB=off GOTOOLCHAIN=local
git -C /repo worktree remove --force $d >/dev/null 2>&1
git -C /repo worktree add --detach $d >/dev/null 2>&1 || { echo "worktree failed"; exit 2; }
(cd $d && python3 $edit) || { echo "$name: EDIT FAILED"; git -C /repo worktree remove --force $d; exit 2; }
if ! (cd $d && go build ./... >/dev/null 2>&1 && go test -vet=off -count=1 ./... >/tmp/mut-$name.test 2>&1); then echo "$name: baseline tests FAIL (mutant invalid)"; tail -5 /tmp/mut-$name.test; git -C /repo worktree remove --force $d; exit 3; fi
for p in "$@"; do
  out=$(cd /verif && VERIF_REPO=$d ./check $p quick 2>&1 | grep -E "^(VIOLATION|OK|check:|  fingerprint)" | head -4 | tr '\n' ' ')
  echo "$name [$p]: $out"
done
git -C /repo worktree remove --force $d
rm -f /tmp/mut-$name.test
