#!/bin/bash
# Re-runs every filed seeded change against the check(s) that caught it (regression of the
# machinery's sensitivity). usage: tools/seeded_all.sh [parallelism=6]
par=${1:-6}
cd /verif
ls seeded | while read name; do
  [ -f seeded/$name/patch.diff ] || continue
  props=$(python3 -c "
import json,sys
r=json.load(open('seeded/$name/results.json'))
print(' '.join(p for p,v in r.items() if v.get('rc')==1))")
  echo "$name $props"
done > /tmp/seeded_all.list
cat /tmp/seeded_all.list | xargs -P $par -L 1 bash -c '
name=$0; shift 0; props="$@"
d=/tmp/sa-$name
export GOFLAGS=-mod=mod GOPROXY=off GOSUMDB=off GOTOOLCHAIN=local
git -C /repo worktree remove --force $d >/dev/null 2>&1
git -C /repo worktree add --detach $d >/dev/null 2>&1
(cd $d && git apply /verif/seeded/$name/patch.diff) || { echo "$name: PATCH-FAILED"; git -C /repo worktree remove --force $d; exit 0; }
ok=0
for p in $props; do
  out=$(cd /verif && VERIF_REPO=$d ./check $p quick 2>&1); rc=$?
  if [ $rc -eq 1 ]; then ok=1; fi
done
if [ $ok -eq 1 ]; then echo "$name: caught"; else echo "$name: NOT-CAUGHT ($props)"; fi
git -C /repo worktree remove --force $d
' 2>&1 | sort > /tmp/seeded_all.out
grep -c ": caught" /tmp/seeded_all.out
grep -v ": caught" /tmp/seeded_all.out
