#!/usr/bin/env python3
"""Regenerates /verif/MANIFEST.json from checks.json (single source of truth)."""
import json, os
V = os.path.dirname(os.path.dirname(os.path.abspath(__file__)))
t = json.load(open(os.path.join(V, "checks.json")))
props = [json.loads(l)["id"] for l in open(os.path.join(V, "properties.jsonl")) if l.strip()]
checks = []
for pid in props:
    s = t["checks"].get(pid)
    if not s or s.get("disabled"):
        continue
    checks.append({
        "property_id": pid,
        "quick_cmd": f"./check {pid} quick",
        "thorough_cmd": f"./check {pid} thorough",
        "evidence_file": f"evidence/{pid}.json",
        "replay_cmd_template": f"./check {pid} quick --replay {{path}}",
        "engine": "simcore",
        "level_claimed": {"category": s.get("level", "exploration"), "text": s["level_text"], "design_ref": s.get("design_ref", "DESIGN.md §5 " + pid)},
        "level_note": s["level_note"],
        "technique": s["technique"],
    })
na = []
for pid in props:
    if pid in t["checks"] and not t["checks"][pid].get("disabled"):
        continue
    na.append({"property_id": pid, "reason": t["not_applicable"][pid]})
m = {
    "version": 1,
    "setup_cmd": "./setup.sh",
    "hooks": {
        "guard": "verif",
        "enable": "go test -tags verif -vet=off -overlay <.work/…/overlay.json>: a build-time overlay (no file is ever written into /repo) adds the tag-guarded packages go/verifhook (re-exports of internal/cbor and internal/signingalgorithm), go/verifhook/signbundlecmd (the sign-bundle command's sources with only the package clause rewritten) and go/verifyield (yield hook); for the serial/interleave-fine binary only, it also replaces the library sources by copies with AST-inserted verifyield.Yield() calls (sim/cmd/yieldgen)",
        "baseline_off_cmd": "cd /repo && GOFLAGS=-mod=mod GOPROXY=off GOSUMDB=off GOTOOLCHAIN=local go test -vet=off -count=1 ./...",
        "source_commits": [],
        "add_only": True,
    },
    "engines": [{
        "name": "simcore", "path": "sim/",
        "serves_properties": [c["property_id"] for c in checks],
        "kind_free_text": "deterministic simulation with fault injection: one rapid bit stream decides every workload, schedule and fault choice; simulated readers/writers/blobs/clocks/peers around the unmodified repository code; independent reference models as oracles; seeded search over many short runs on 16 worker processes; rapid .fail bit streams as minimised replay files",
    }],
    "checks": checks,
    "notes": t.get("notes", ""),
    "not_applicable": na,
}
json.dump(m, open(os.path.join(V, "MANIFEST.json"), "w"), indent=1)
print("claimed", [c["property_id"] for c in checks], "n/a", [n["property_id"] for n in na])
