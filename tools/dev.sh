#!/bin/bash
# Developer convenience: prepares a persistent overlay under .work/dev and runs
# `go <args>` in /verif/sim with it, e.g.  tools/dev.sh test ./worlds/sxg -run TestClean
cd "$(dirname "$0")/.."
export GOFLAGS=-mod=mod GOPROXY=off GOSUMDB=off GOTOOLCHAIN=local CGO_ENABLED=${CGO_ENABLED:-0}
python3 - <<'PY'
import importlib.machinery, importlib.util, os, sys
sys.argv=["check"]
l=importlib.machinery.SourceFileLoader("checkmod", os.path.join(os.getcwd(),"check"))
s=importlib.util.spec_from_loader("checkmod", l); m=importlib.util.module_from_spec(s); l.exec_module(m)
m.prepare(os.path.join(m.VERIF,".work","dev"), os.environ.get("VERIF_REPO","/repo"))
PY
cmd=$1; shift
cd sim && exec go $cmd -tags verif -overlay /verif/.work/dev/overlay.json -modfile /verif/.work/dev/go.mod "$@"
