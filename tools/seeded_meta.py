#!/usr/bin/env python3
"""Writes meta.json for every seeded change under /verif/seeded and prints the
sensitivity table (markdown) for DESIGN.md §14."""
import json, os, re, glob
V = os.path.dirname(os.path.dirname(os.path.abspath(__file__)))
rows = []
for d in sorted(glob.glob(os.path.join(V, "seeded", "*"))):
    name = os.path.basename(d)
    if not os.path.exists(os.path.join(d, "patch.diff")):
        continue
    prop = name.split("-")[0]
    notes = open(os.path.join(d, "notes.md")).read() if os.path.exists(os.path.join(d, "notes.md")) else ""
    res = {}
    if os.path.exists(os.path.join(d, "results.json")):
        res = json.load(open(os.path.join(d, "results.json")))
    files = sorted(set(re.findall(r"^\+\+\+ b/(\S+)", open(os.path.join(d, "patch.diff")).read(), re.M)))
    # a one-paragraph summary: first non-heading paragraph of the notes
    paras = [p.strip() for p in re.split(r"\n\s*\n", notes) if p.strip() and not p.strip().startswith("#")]
    summary = re.sub(r"\s+", " ", paras[0])[:600] if paras else ""
    m = re.search(r"(?is)(what (?:exactly )?(?:is )?need\w*.*?|needs?:.*?|manifest\w*.*?)(?:\n\s*\n|\Z)", notes)
    needs = re.sub(r"\s+", " ", m.group(1))[:600] if m else summary
    override = os.path.join(d, "needs.txt")
    if os.path.exists(override):
        needs = open(override).read().strip()
    meta = {
        "breaks_property": prop,
        "files_changed": files,
        "summary": summary,
        "needs_to_manifest": needs,
        "confirmed": "patch applies to /repo HEAD in a scratch worktree; go build ./... and the unedited baseline suite pass with it; the demonstration test (demo_test.go copied into " + (open(os.path.join(d, "WHERE.txt")).read().strip() if os.path.exists(os.path.join(d, "WHERE.txt")) else "?") + ") fails with the change and passes without it",
        "ran": ["tools/seeded_eval.sh <dir> %s %s   (= VERIF_REPO=<scratch worktree with the patch> ./check <ID> quick)" % (name, " ".join(res.keys()))],
        "results": res,
        "source": "independent sub-agent given only the property text and a scratch worktree" if not os.path.exists(os.path.join(d, "HANDMADE")) else "hand-made during development",
    }
    json.dump(meta, open(os.path.join(d, "meta.json"), "w"), indent=1)
    def norm(fps):
        out = []
        for f in fps.split(";"):
            if f.endswith("):"):  # older driver versions quoted the record inside a panic message
                f = f[:-2] if f.count(")") > f.count("(") else f[:-1]
            if f and f not in out:
                out.append(f)
        return ";".join(out)
    caught = [f"{p}: {norm(r['fingerprints'])}" for p, r in res.items() if r.get("rc") == 1]
    missed = [p for p, r in res.items() if r.get("rc") == 0]
    rows.append((name, ", ".join(files).replace("go/", ""), "; ".join(caught) if caught else "—", ", ".join(missed) if missed else ""))
print("| change | files | caught by (quick check: fingerprints) | not caught by |")
print("|---|---|---|---|")
for r in rows:
    print("| %s | %s | %s | %s |" % r)
