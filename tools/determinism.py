#!/usr/bin/env python3
"""Determinism self-test (DESIGN.md §7): every (property oracle, world, test)
is run for N worker seeds, three times each, at GOMAXPROCS 1 / 4 / 16 and
under different levels of machine load (all runs of all seeds are thrown at a
16-wide pool in shuffled order); the per-process event-log digests and run
counts must be identical. Excluded by construction: serial/TestParallelRace
(real goroutines under the Go scheduler).

usage: tools/determinism.py [N=30] [checks=150]
"""
import concurrent.futures as cf, importlib.machinery, importlib.util, json, os, random, shutil, sys, time
V = os.path.dirname(os.path.dirname(os.path.abspath(__file__)))
l = importlib.machinery.SourceFileLoader("checkmod", os.path.join(V, "check"))
spec = importlib.util.spec_from_loader("checkmod", l); m = importlib.util.module_from_spec(spec)
sys.argv = ["check"]; l.exec_module(m)
N = int(sys.argv[1]) if len(sys.argv) > 1 else 30
CHECKS = int(sys.argv[2]) if len(sys.argv) > 2 else 150
ONLY = sys.argv[3] if len(sys.argv) > 3 else None  # optional: only tests whose name contains this
work = os.path.join(V, ".work", "determinism-%d" % os.getpid())
shutil.rmtree(work, ignore_errors=True)
ov = m.prepare(work, "/repo")
table = m.load_table()["checks"]
bins, jobs, seen = {}, [], set()
for prop, spec_ in sorted(table.items()):
    for c in spec_["configs"]:
        if c.get("race"):
            continue
        key = (prop, c["world"], c["test"])
        if key in seen or (ONLY and ONLY not in c["test"]):
            continue
        seen.add(key)
        bk = (c["world"], bool(c.get("yield")))
        if bk not in bins:
            bins[bk], _ = m.build(work, "/repo", c["world"], ov, yld=bool(c.get("yield")))
        checks = min(CHECKS, c["quick"])
        for i in range(N):
            ws = m.worker_seed(12345, prop, c["world"] + "/" + c["test"], i)
            for rep, gmp in enumerate((1, 4, 16)):
                jobs.append({"prop": prop, "tier": "quick", "world": c["world"], "test": c["test"], "repo": "/repo",
                             "bin": bins[bk], "dir": os.path.join(work, f"{prop}-{c['world']}-{c['test']}-{i}-{rep}"),
                             "seed": ws, "checks": checks, "verif_seed": 12345, "gomaxprocs": gmp, "key": key + (i,)})
random.Random(1).shuffle(jobs)
t0 = time.time()
with cf.ThreadPoolExecutor(max_workers=16) as ex:
    done = list(ex.map(m.run_worker, jobs))
res, bad = {}, []
for j in done:
    st = j.get("stats")
    d = (st["runs"], st["log_digest"], j["rc"]) if st else ("no-stats", j["rc"])
    res.setdefault(j["key"], []).append(d)
for k, ds in sorted(res.items()):
    if len(set(ds)) != 1:
        bad.append((k, ds))
print(f"determinism: {len(res)} (oracle, test, seed) triples x 3 runs (GOMAXPROCS 1/4/16), {len(done)} processes, {time.time()-t0:.0f}s")
for k, ds in bad[:20]:
    print("DIVERGED", k, ds)
shutil.rmtree(work, ignore_errors=True)
print("OK: all event-log digests identical" if not bad else f"FAILED: {len(bad)} triples diverged")
sys.exit(1 if bad else 0)
