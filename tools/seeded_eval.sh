#!/bin/bash
# usage: tools/seeded_eval.sh <src-dir with patch.diff demo_test.go WHERE.txt notes.md> <name> <prop> [<more props>...]
# Confirms a seeded change (builds, passes the baseline suite, demo fails with / passes without),
# runs the given quick checks against it in a scratch worktree, and files it under /verif/seeded/<name>/.
src=$1; name=$2; shift 2; props="$@"
export GOFLAGS=-mod=mod GOPROXY=off GOSUMDB=off GOTOOLCHAIN=local
d=/tmp/ev-$name
git -C /repo worktree remove --force $d >/dev/null 2>&1
git -C /repo worktree add --detach $d >/dev/null 2>&1 || { echo "$name: worktree failed"; exit 2; }
where=$(cat $src/WHERE.txt | tr -d '\n ' )
fail() { echo "$name: REJECTED - $1"; git -C /repo worktree remove --force $d; exit 3; }
cd $d
git apply $src/patch.diff || fail "patch does not apply"
go build ./... >/dev/null 2>&1 || fail "does not build"
go test -vet=off -count=1 ./... >/tmp/ev-$name.base 2>&1 || fail "baseline suite fails with the change"
cp $src/demo_test.go $d/$where/zz_demo_test.go
go test -vet=off -count=1 -run 'TestDemo' ./$where >/tmp/ev-$name.with 2>&1 && fail "demo passes WITH the change"
git checkout -- . ; git clean -fdq
go test -vet=off -count=1 -run 'TestDemo' ./$where >/tmp/ev-$name.without 2>&1 || fail "demo fails WITHOUT the change"
rm -f $d/$where/zz_demo_test.go
git apply $src/patch.diff
results="{"
sep=""
for p in $props; do
  out=$(cd /verif && VERIF_REPO=$d ./check $p quick 2>&1)
  rc=$?
  fps=$(echo "$out" | grep "fingerprint=" | sed 's/.*fingerprint=//' | tr '\n' ';')
  echo "$name [$p]: rc=$rc $fps"
  results="$results$sep\"$p\": {\"rc\": $rc, \"fingerprints\": \"$fps\"}"
  sep=", "
done
results="$results}"
mkdir -p /verif/seeded/$name
cp $src/patch.diff $src/demo_test.go $src/WHERE.txt $src/notes.md /verif/seeded/$name/ 2>/dev/null
echo "$results" > /verif/seeded/$name/results.json
git -C /repo worktree remove --force $d
rm -f /tmp/ev-$name.*
