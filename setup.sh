#!/bin/bash
# Offline setup: warm the Go build cache by compiling every world once.
set -e
cd "$(dirname "$0")"
export GOFLAGS=-mod=mod GOPROXY=off GOSUMDB=off GOTOOLCHAIN=local CGO_ENABLED=0
mkdir -p .work evidence replays
python3 - <<'PY'
import json,subprocess,sys,os
sys.argv=["check"]
import importlib.machinery, importlib.util
loader=importlib.machinery.SourceFileLoader("checkmod", os.path.join(os.getcwd(),"check"))
spec=importlib.util.spec_from_loader("checkmod", loader); m=importlib.util.module_from_spec(spec); loader.exec_module(m)
work=os.path.join(m.VERIF,".work","setup")
ov=m.prepare(work,"/repo")
worlds=sorted({c["world"] for s in m.load_table()["checks"].values() for c in s["configs"]})
for w in worlds:
    m.build(work,"/repo",w,ov)
    print("built",w)
for s in m.load_table()["checks"].values():
    for c in s["configs"]:
        if c.get("race") or c.get("yield"):
            m.build(work,"/repo",c["world"],ov,race=bool(c.get("race")),yld=bool(c.get("yield")))
            print("built",c["world"],"race" if c.get("race") else "yield")
import shutil; shutil.rmtree(work,ignore_errors=True)
PY
echo setup ok
